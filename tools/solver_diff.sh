#!/bin/bash
# usage: solver_diff.sh [harness[,params]...]; records the engine's query stream for each harness (one worker)
# and replays it through z3 5.1.0 (z3-new), z3 4.8.12 and cvc5 1.0, comparing every sat/unsat answer.
cd /verif || exit 2
D=$(mktemp -d /tmp/smtdiff.XXXX)
specs="$@"
[ -z "$specs" ] && specs="VH_C11a VH_C12a internal/vharn:VH_C14b,steps=3 internal/vharn:VH_C05,steps=2,keys=1,startenabled=1"
rc=0
for s in $specs; do
  h=${s%%,*}; p=""; [ "$h" != "$s" ] && p=${s#*,}
  f=$D/$(echo $h | tr ':/' '__').smt2
  GOSYM_SMT=$f timeout 900 bin/gosym run -harness $h ${p:+-params $p} -shards 1 >/dev/null 2>&1
  z3-new -in < $f 2>&1 | grep "^sat\|^unsat\|^unknown\|error" > $f.a
  grep -v "set-option :timeout" $f | timeout 1800 z3 -in 2>&1 | grep "^sat\|^unsat\|^unknown\|error" > $f.b
  grep -v "set-option :timeout\|set-option :print-success" $f | timeout 3600 cvc5 --incremental --produce-models --lang smt2 2>&1 | grep "^sat\|^unsat\|^unknown\|error" > $f.c
  d1=$(diff $f.a $f.b | grep -c '^[<>]'); d2=$(diff $f.a $f.c | grep -c '^[<>]')
  echo "$s: queries=$(wc -l < $f.a) z3-4.8.12-differs=$d1 cvc5-differs=$d2"
  [ "$d1" != 0 -o "$d2" != 0 ] && rc=1
done
rm -rf $D
exit $rc
