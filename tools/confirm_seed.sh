#!/bin/bash
# usage: confirm_seed.sh <PROP> <worktree> <patch> <demo_test.go> <demo pkg dir relative to repo root> <seed name>
# Confirms in the scratch worktree: suite passes with the change, demo fails with it and passes without it;
# then stores the seed under /verif/seeded/<name>/.
export GOFLAGS=-mod=mod GOPROXY=off GOSUMDB=off GOTOOLCHAIN=local
PROP=$1; WT=$2; PATCH=$3; DEMO=$4; DIR=$5; NAME=$6
set -u
cd "$WT" || exit 2
git checkout -q -- . ; git clean -fdq
git apply "$PATCH" || { echo "patch does not apply"; exit 2; }
go build ./... || { echo "BUILD FAILS"; exit 1; }
if go test -vet=off -count=1 ./... > /tmp/seed_suite.log 2>&1; then echo "suite: PASS with change"; else echo "suite: FAIL with change"; tail -20 /tmp/seed_suite.log; exit 1; fi
cp "$DEMO" "$WT/$DIR/zz_demo_test.go"
if go test -vet=off -count=1 -run 'Demo' "./$DIR" > /tmp/seed_demo1.log 2>&1; then echo "demo: PASSES with change (BAD)"; exit 1; else echo "demo: fails with change (good)"; fi
git apply -R "$PATCH"
if go test -vet=off -count=1 -run 'Demo' "./$DIR" > /tmp/seed_demo2.log 2>&1; then echo "demo: passes without change (good)"; else echo "demo: FAILS without change (BAD)"; tail -20 /tmp/seed_demo2.log; exit 1; fi
rm -f "$WT/$DIR/zz_demo_test.go" /tmp/gofakes3-*.log
mkdir -p /verif/seeded/$NAME
cp "$PATCH" /verif/seeded/$NAME/patch.diff
cp "$DEMO" /verif/seeded/$NAME/demo_test.go
echo "stored /verif/seeded/$NAME"
