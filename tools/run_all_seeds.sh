#!/bin/bash
# usage: run_all_seeds.sh [seed names...]; runs every seeded change under /verif/seeded against the
# quick check of its property and prints one line per seed: <seed> <PROP> exit=<rc> <first violation label>.
cd /verif || exit 2
seeds="$@"
[ -z "$seeds" ] && seeds=$(ls seeded | grep -v '\.md$')
for s in $seeds; do
  p=${s%%-*}
  if grep -q '"status": "superseded' seeded/$s/meta.json 2>/dev/null; then echo "$s $p superseded (skipped)"; continue; fi
  # a seed may name another property's check as the one that decides it
  c=$(sed -n 's/.*"check": "\(C[0-9]*\)".*/\1/p' seeded/$s/meta.json 2>/dev/null); [ -n "$c" ] && p=$c
  out=$(./tools/run_seed.sh $s $p 2>&1)
  rc=$(echo "$out" | grep -o "^seed $s on $p: exit=[0-9]*" | grep -o "[0-9]*$")
  lab=$(echo "$out" | grep -A1 "^VIOLATION" | grep -v "^VIOLATION\|^--" | head -1 | awk '{print $1" "$2}')
  echo "$s $p exit=$rc $lab"
done
