#!/bin/bash
# usage: run_seed.sh <seed name> <PROP> [check args]; applies the seed to /repo, runs the check, undoes it.
NAME=$1; PROP=$2; shift 2
cd /repo || exit 2
if ! git diff --quiet; then echo "/repo has local changes"; exit 2; fi
git apply /verif/seeded/$NAME/patch.diff || exit 2
cd /verif && ./check $PROP "$@"; rc=$?
git -C /repo checkout -- .
echo "seed $NAME on $PROP: exit=$rc"
exit $rc
