package main

// `gosym check <ID>`: run all harnesses of a property, replay counterexamples
// natively, apply the known-findings protocol, write evidence.

import (
	"bytes"
	"encoding/json"
	"flag"
	"fmt"
	"os"
	"os/exec"
	"path/filepath"
	"regexp"
	"runtime"
	"sort"
	"strconv"
	"strings"
	"time"
)

type TierSpec struct {
	Params     map[string]int64 `json:"params"`
	Shards     int              `json:"shards"`
	ShardDepth int              `json:"sharddepth"`
	TimeoutMs  int              `json:"solver_timeout_ms"`
	Unwind     int              `json:"unwind"`
	Skip       bool             `json:"skip"`
}

type HarnessSpec struct {
	Name     string   `json:"name"` // [pkg:]Func
	What     string   `json:"what"`
	Reach    []string `json:"reach"` // vacuity witnesses that must be reached
	Quick    TierSpec `json:"quick"`
	Thorough TierSpec `json:"thorough"`
	Tier     string   `json:"tier_label"` // backend tier (T-mem, T-fs, ...)
	Threads  bool     `json:"threads"`    // thread-mode harness: native runs use -race and are repeated
}

type CheckSpec struct {
	Property    string        `json:"property"`
	DesignRef   string        `json:"design_ref"`
	Harnesses   []HarnessSpec `json:"harnesses"`
	Assumptions []string      `json:"assumptions"`
	TrustedBase []string      `json:"trusted_base"`
	Outside     []string      `json:"outside_claim"`
}

type replayFile struct {
	Harness string            `json:"harness"`
	Label   string            `json:"label"`
	Kind    string            `json:"kind"`
	Site    string            `json:"site"`
	Msg     string            `json:"msg"`
	Model   map[string]uint64 `json:"model"`
	Params  map[string]int64  `json:"params"`
	Choices []string          `json:"choices"`
	Stack   string            `json:"stack,omitempty"`
}

type nativeResult struct {
	Obs    []string // natively observed values (vsym.Observe), in order
	Race   bool     // the Go race detector fired during the native run
	Status string   // ok | failed | panic | aborted | error
	Labels []string
	Msg    string
	Site   string
}

func harnessPkgFunc(name string) (pkgPath, fn string) {
	i := strings.LastIndex(name, ":")
	if i < 0 {
		return repoMod, name
	}
	p := name[:i]
	if p == "" {
		return repoMod, name[i+1:]
	}
	if !strings.HasPrefix(p, repoMod) {
		p = repoMod + "/" + p
	}
	return p, name[i+1:]
}

// nativeRun compiles the harness package natively (overlay, native vsym) and
// runs the given replay files; returns one result per replay.
func nativeRun(repo, verif, work string, harness string, replays []string, timeout time.Duration) ([]nativeResult, error) {
	return nativeRunOpt(repo, verif, work, harness, replays, timeout, false, 1)
}

// nativeRunOpt: with race=true the test binary is built with the Go race
// detector and every replay is repeated up to repeat times (schedules cannot
// be forced natively); a detected data race marks every result.
func nativeRunOpt(repo, verif, work string, harness string, replays []string, timeout time.Duration, race bool, repeat int) ([]nativeResult, error) {
	pkgPath, fn := harnessPkgFunc(harness)
	rel := strings.TrimPrefix(strings.TrimPrefix(pkgPath, repoMod), "/")
	pkgDir := filepath.Join(repo, rel)
	pkgName := filepath.Base(pkgPath)
	if pkgPath == repoMod {
		pkgName = "gofakes3"
	}
	files, err := overlayFiles(repo, verif)
	if err != nil {
		return nil, err
	}
	os.MkdirAll(work, 0755)
	testSrc := fmt.Sprintf(`package %s

import (
	"testing"

	"github.com/johannesboyne/gofakes3/internal/vsym"
)

func TestVReplay(t *testing.T) {
	vsym.RunReplays(t, map[string]func(){%q: %s})
}
`, pkgName, fn, fn)
	testPath := filepath.Join(work, "zz_vreplay_"+fn+"_test.go")
	if err := os.WriteFile(testPath, []byte(testSrc), 0644); err != nil {
		return nil, err
	}
	files[filepath.Join(pkgDir, "zz_vreplay_test.go")] = testPath
	ovPath := filepath.Join(work, "overlay_"+fn+".json")
	ob, _ := json.Marshal(map[string]interface{}{"Replace": files})
	if err := os.WriteFile(ovPath, ob, 0644); err != nil {
		return nil, err
	}
	listPath := filepath.Join(work, "replays_"+fn+".txt")
	var lb bytes.Buffer
	for _, r := range replays {
		fmt.Fprintf(&lb, "%s %s\n", fn, r)
	}
	os.WriteFile(listPath, lb.Bytes(), 0644)
	target := "./" + rel
	if rel == "" {
		target = "."
	}
	binPath := filepath.Join(work, "replay_"+fn+".test")
	buildArgs := []string{"test", "-c", "-vet=off", "-overlay", ovPath, "-o", binPath}
	if race {
		buildArgs = append(buildArgs, "-race")
	}
	buildArgs = append(buildArgs, target)
	build := exec.Command("go", buildArgs...)
	build.Dir = repo
	build.Env = append(os.Environ(), "GOFLAGS=-mod=mod", "GOPROXY=off", "GOSUMDB=off", "GOTOOLCHAIN=local")
	if bo, err := build.CombinedOutput(); err != nil {
		return nil, fmt.Errorf("native build failed: %v\n%s", err, bo)
	}
	cmd := exec.Command(binPath, "-test.v", "-test.run", "^TestVReplay$", "-test.timeout", fmt.Sprintf("%ds", int(timeout.Seconds())))
	cmd.Dir = work
	cmd.Env = append(os.Environ(), "VSYM_REPLAY_LIST="+listPath, fmt.Sprintf("VSYM_REPEAT=%d", repeat))
	// a replay that deadlocks or spins is cut off on its own and reported as
	// "timeout"; the following replays still run
	cmd.Env = append(cmd.Env, "VSYM_HANG_SECS=20")
	var out bytes.Buffer
	cmd.Stdout = &out
	cmd.Stderr = &out
	runErr := cmd.Run()
	os.Remove(binPath)
	res := make([]nativeResult, len(replays))
	for i := range res {
		res[i].Status = "error"
	}
	re := regexp.MustCompile(`^VSYM-RESULT (\d+) (\S+) (ok|failed|panic|aborted|timeout)(?:: (.*))?$`)
	reObs := regexp.MustCompile(`^VSYM-OBS (\d+) (.*)$`)
	seen := 0
	for _, line := range strings.Split(out.String(), "\n") {
		if mo := reObs.FindStringSubmatch(strings.TrimRight(line, "\r")); mo != nil {
			idx, _ := strconv.Atoi(mo[1])
			if idx >= 0 && idx < len(res) {
				res[idx].Obs = append(res[idx].Obs, mo[2])
			}
			continue
		}
		m := re.FindStringSubmatch(strings.TrimSpace(line))
		if m == nil {
			continue
		}
		idx, _ := strconv.Atoi(m[1])
		if idx < 0 || idx >= len(res) {
			continue
		}
		seen++
		res[idx].Status = m[3]
		res[idx].Msg = m[4]
		if m[3] == "failed" {
			res[idx].Labels = strings.Fields(strings.Trim(m[4], "[]"))
		}
		if m[3] == "panic" {
			if j := strings.Index(m[4], " @site "); j >= 0 {
				res[idx].Site = m[4][j+7:]
				res[idx].Msg = m[4][:j]
			}
		}
	}
	if race && strings.Contains(out.String(), "WARNING: DATA RACE") {
		for i := range res {
			res[i].Race = true
		}
	}
	if seen < len(replays) {
		// a replay that hangs or kills the test binary: everything after the
		// last reported one is unknown; report the tail of the output
		tail := out.String()
		if len(tail) > 3000 {
			tail = tail[len(tail)-3000:]
		}
		for i := range res {
			if res[i].Status == "error" {
				res[i].Msg = "no result line"
				if strings.Contains(out.String(), "panic: test timed out") {
					res[i].Status = "timeout"
				}
			}
		}
		if seen == 0 && runErr != nil {
			return res, fmt.Errorf("native run failed: %v\n%s", runErr, tail)
		}
	}
	os.RemoveAll(filepath.Join(os.TempDir(), "gofakes3-logs")) // best effort
	return res, nil
}

func loadSpec(verif, id string) (*CheckSpec, error) {
	b, err := os.ReadFile(filepath.Join(verif, "checks.json"))
	if err != nil {
		return nil, err
	}
	var all map[string]*CheckSpec
	if err := json.Unmarshal(b, &all); err != nil {
		return nil, fmt.Errorf("checks.json: %v", err)
	}
	sp := all[id]
	if sp == nil {
		return nil, fmt.Errorf("no check spec for %s", id)
	}
	sp.Property = id
	return sp, nil
}

func cmdCheck(args []string) {
	fs := flag.NewFlagSet("check", flag.ExitOnError)
	repo := fs.String("repo", "/repo", "")
	verif := fs.String("verif", "/verif", "")
	tier := fs.String("tier", "", "quick|thorough")
	replay := fs.String("replay", "", "replay a counterexample file natively")
	only := fs.String("only", "", "run only this harness")
	verbose := fs.Int("v", 0, "")
	noNative := fs.Bool("nonative", false, "skip native cross-validation (debugging only)")
	if len(args) < 1 {
		fmt.Fprintln(os.Stderr, "usage: gosym check <ID> [flags]")
		os.Exit(2)
	}
	id := args[0]
	fs.Parse(args[1:])
	if *tier == "" {
		*tier = os.Getenv("VERIF_TIER")
	}
	if *tier == "" {
		*tier = "quick"
	}
	seed := 0
	if s := os.Getenv("VERIF_SEED"); s != "" {
		seed, _ = strconv.Atoi(s)
	}
	work := filepath.Join(*verif, ".work", id)
	os.MkdirAll(work, 0755)

	if *replay != "" {
		os.Exit(doReplay(*repo, *verif, work, id, *replay))
	}

	t0 := time.Now()
	spec, err := loadSpec(*verif, id)
	if err != nil {
		fmt.Fprintln(os.Stderr, "error:", err)
		os.Exit(2)
	}
	known := loadKnown(filepath.Join(*verif, "known-findings.json"))

	type hres struct {
		spec HarnessSpec
		ts   TierSpec
		out  *RunOutput
	}
	var results []hres
	exit := 0
	inconclusive := []string{}
	for _, h := range spec.Harnesses {
		if *only != "" && !strings.HasSuffix(h.Name, *only) && h.Tier != *only && h.Name+"@"+h.Tier != *only {
			continue
		}
		ts := h.Quick
		if *tier == "thorough" {
			ts = h.Thorough
			if ts.Shards == 0 && ts.Params == nil && !ts.Skip {
				ts = h.Quick
			}
		}
		if ts.Skip {
			continue
		}
		o := runOpts{repo: *repo, verif: *verif, harness: h.Name, params: ts.Params, shards: ts.Shards, shardDepth: ts.ShardDepth,
			timeoutMs: ts.TimeoutMs, known: known, verbose: *verbose, maxBack: ts.Unwind, stopOnViol: true}
		if o.params == nil {
			o.params = map[string]int64{}
		}
		if o.shards <= 0 {
			o.shards = runtime.NumCPU()
		}
		if o.shardDepth == 0 {
			o.shardDepth = 3
		}
		if v := os.Getenv("GOSYM_TIMEOUT_MS"); v != "" {
			// diagnosis: a short timeout exposes queries that are close to the limit
			fmt.Sscanf(v, "%d", &o.timeoutMs)
		}
		if o.timeoutMs == 0 {
			o.timeoutMs = 10000
			if *tier == "thorough" {
				o.timeoutMs = 60000
			}
		}
		if o.maxBack == 0 {
			o.maxBack = 4096
		}
		ro, err := runOne(o)
		if err != nil {
			fmt.Fprintf(os.Stderr, "error: harness %s: %v\n", h.Name, err)
			inconclusive = append(inconclusive, "harness-error:"+h.Name)
			continue
		}
		if *verbose > 0 {
			printSummary(ro)
		} else {
			fmt.Printf("harness %-34s paths=%-6d obligations=%-6d discharged=%-6d queries=%-6d wall=%.1fs\n", h.Name, ro.Paths, ro.Obligations, ro.Discharged, ro.Queries, ro.WallS)
		}
		results = append(results, hres{h, ts, ro})
	}

	// ---- violations: replay natively before reporting ----
	os.MkdirAll(filepath.Join(*verif, "replays"), 0755)
	nViol := 0
	mismatches := 0
	validated := 0
	observationsCompared := 0
	for _, hr := range results {
		ro := hr.out
		if len(ro.Violations) == 0 {
			continue
		}
		var files []string
		for i, v := range ro.Violations {
			_, fn := harnessPkgFunc(hr.spec.Name)
			p := filepath.Join(*verif, "replays", fmt.Sprintf("%s-%s-%d.json", id, fn, i))
			rf := replayFile{Harness: hr.spec.Name, Label: v.Label, Kind: v.Kind, Site: v.Site, Msg: v.Msg, Model: v.Model, Params: ro.Params, Choices: v.Choices, Stack: v.Stack}
			b, _ := json.MarshalIndent(rf, "", " ")
			os.WriteFile(p, b, 0644)
			files = append(files, p)
		}
		var nres []nativeResult
		var err error
		if hr.spec.Threads {
			nres, err = nativeRunOpt(*repo, *verif, work, hr.spec.Name, files, 300*time.Second, true, 300)
		} else {
			nres, err = nativeRun(*repo, *verif, work, hr.spec.Name, files, 120*time.Second)
		}
		if err != nil {
			fmt.Fprintf(os.Stderr, "native replay failed: %v\n", err)
		}
		for i, v := range ro.Violations {
			nr := nativeResult{Status: "error"}
			if i < len(nres) {
				nr = nres[i]
			}
			confirmed := false
			switch v.Kind {
			case "assert":
				for _, l := range nr.Labels {
					if l == v.Label {
						confirmed = true
					}
				}
				// a native panic while replaying an assertion failure is still a real failure of the code
				if nr.Status == "panic" || nr.Race {
					confirmed = true
				}
			case "panic":
				confirmed = nr.Status == "panic"
			case "race":
				confirmed = nr.Race
			case "lock":
				confirmed = nr.Status == "timeout" || nr.Status == "panic" || nr.Status == "failed"
			case "hang":
				confirmed = nr.Status == "timeout"
			}
			if confirmed {
				nViol++
				fmt.Printf("VIOLATION property=%s replay=%s\n", id, files[i])
				fmt.Printf("  %s %s at %s: %s (native: %s %s)\n  choices=%v\n", v.Kind, v.Label, v.Site, v.Msg, nr.Status, nr.Msg, v.Choices)
			} else if v.Kind == "hang" {
				fmt.Printf("UNWINDING-LIMIT property=%s harness=%s %s: the loop did not end within the unwinding limit but the native run completes (native: %s); bound too small, not a violation\n", id, hr.spec.Name, v.Label, nr.Status)
			} else {
				mismatches++
				fmt.Printf("ENCODER-MISMATCH property=%s harness=%s label=%s: counterexample did not reproduce natively (native: %s %s); not reported as a violation\n", id, hr.spec.Name, v.Label, nr.Status, nr.Msg)
				inconclusive = append(inconclusive, "encoder-mismatch:"+v.Label)
			}
		}
	}

	// ---- concolic validation of sampled paths (moot once a violation is confirmed) ----
	if !*noNative && nViol == 0 {
		for _, hr := range results {
			ro := hr.out
			var files []string
			var idxs []int
			for i, s := range ro.Samples {
				if s.Outcome != "ok" || s.Model == nil {
					continue
				}
				_, fn := harnessPkgFunc(hr.spec.Name)
				p := filepath.Join(work, fmt.Sprintf("sample-%s-%d.json", fn, i))
				rf := replayFile{Harness: hr.spec.Name, Model: s.Model, Params: ro.Params, Choices: s.Choices}
				b, _ := json.Marshal(rf)
				os.WriteFile(p, b, 0644)
				files = append(files, p)
				idxs = append(idxs, i)
			}
			if len(files) == 0 {
				continue
			}
			var nres []nativeResult
			var err error
			if hr.spec.Threads {
				nres, err = nativeRunOpt(*repo, *verif, work, hr.spec.Name, files, 300*time.Second, true, 20)
			} else {
				nres, err = nativeRun(*repo, *verif, work, hr.spec.Name, files, 120*time.Second)
			}
			if err != nil {
				fmt.Fprintf(os.Stderr, "native validation failed for %s: %v\n", hr.spec.Name, err)
				inconclusive = append(inconclusive, "native-validation-error:"+hr.spec.Name)
				continue
			}
			for k, nr := range nres {
				// an "ok" symbolic path passed every assertion for all values on
				// that path; its model must therefore run clean natively unless
				// a recorded violation/known finding covers it.
				if nr.Status == "ok" {
					// compare the engine's predicted observations with the native ones
					pred := ro.Samples[idxs[k]].Observed
					bad := ""
					if len(pred) != len(nr.Obs) && !hr.spec.Threads {
						bad = fmt.Sprintf("engine predicted %d observations, native run made %d", len(pred), len(nr.Obs))
					} else if !hr.spec.Threads {
						for oi := range pred {
							if strings.HasSuffix(pred[oi], "=?") || strings.Contains(pred[oi], "?") {
								continue
							}
							if pred[oi] != nr.Obs[oi] {
								bad = fmt.Sprintf("observation %d: engine %s, native %s", oi, pred[oi], nr.Obs[oi])
								break
							}
						}
					}
					if bad != "" {
						mismatches++
						fmt.Printf("ENCODER-MISMATCH property=%s harness=%s sample=%d: %s\n", id, hr.spec.Name, idxs[k], bad)
						inconclusive = append(inconclusive, "encoder-mismatch-observation:"+hr.spec.Name)
					} else {
						validated++
						observationsCompared += len(pred)
					}
				} else if nr.Status == "failed" || nr.Status == "panic" {
					covered := false
					for _, l := range nr.Labels {
						for _, v := range ro.Violations {
							if v.Label == l {
								covered = true
							}
						}
						for kid := range ro.KnownSeen {
							for _, kl := range known[kid].Labels {
								if kl == l || (strings.HasSuffix(kl, "*") && strings.HasPrefix(l, kl[:len(kl)-1])) {
									covered = true
								}
							}
						}
					}
					if covered {
						validated++
					} else {
						mismatches++
						fmt.Printf("ENCODER-MISMATCH property=%s harness=%s sample=%d: engine predicted ok, native run: %s %s\n", id, hr.spec.Name, idxs[k], nr.Status, nr.Msg)
						inconclusive = append(inconclusive, "encoder-mismatch-sample:"+hr.spec.Name)
					}
				} else {
					mismatches++
					fmt.Printf("ENCODER-MISMATCH property=%s harness=%s sample=%d: native run %s %s\n", id, hr.spec.Name, idxs[k], nr.Status, nr.Msg)
					inconclusive = append(inconclusive, "native-sample-"+nr.Status+":"+hr.spec.Name)
				}
			}
		}
	}

	// ---- aggregate ----
	ev := map[string]interface{}{}
	cov := map[string]interface{}{}
	var states, trans, obl, dis, queries, triv, nontriv int
	var solverS float64
	var steps int64
	funcs := map[string]bool{}
	stubs := map[string]bool{}
	var samples []interface{}
	var hsum []interface{}
	knownSeen := map[string]int{}
	funcsOther := 0
	for _, hr := range results {
		ro := hr.out
		states += ro.Paths
		trans += ro.Forks
		obl += ro.Obligations
		dis += ro.Discharged
		triv += ro.Trivial
		nontriv += ro.PathsNontr
		queries += ro.Queries
		solverS += ro.SolverS
		steps += ro.Steps
		if ro.FuncsOther > funcsOther {
			funcsOther = ro.FuncsOther
		}
		for _, f := range ro.FuncsRepo {
			funcs[f] = true
		}
		for _, s := range ro.Stubs {
			stubs[s] = true
		}
		for k, n := range ro.KnownSeen {
			knownSeen[k] += n
		}
		for i, s := range ro.Samples {
			if i < 3 {
				samples = append(samples, map[string]interface{}{"harness": hr.spec.Name, "decisions": s.Choices, "model": s.Model, "outcome": s.Outcome, "symbolic_forks": s.Forks})
			}
		}
		missing := []string{}
		for _, r := range hr.spec.Reach {
			if ro.Reached[r] == 0 {
				missing = append(missing, r)
			}
		}
		if len(missing) > 0 {
			inconclusive = append(inconclusive, fmt.Sprintf("vacuity:%s:unreached %v", hr.spec.Name, missing))
		}
		if ro.Paths == 0 {
			inconclusive = append(inconclusive, "no-paths:"+hr.spec.Name)
		}
		if ro.Inconcl > 0 {
			inconclusive = append(inconclusive, fmt.Sprintf("solver-unknown:%s:%v", hr.spec.Name, ro.InconcNotes))
		}
		if len(ro.Unsupported) > 0 {
			inconclusive = append(inconclusive, fmt.Sprintf("unsupported:%s:%v", hr.spec.Name, ro.Unsupported))
		}
		if ro.UnwindHits > 0 {
			inconclusive = append(inconclusive, fmt.Sprintf("unwinding-limit:%s:%d paths %v", hr.spec.Name, ro.UnwindHits, ro.InconcNotes))
		}
		if len(ro.Errors) > 0 {
			inconclusive = append(inconclusive, fmt.Sprintf("engine-error:%s:%v", hr.spec.Name, ro.Errors))
		}
		if ro.Truncated {
			inconclusive = append(inconclusive, "truncated:"+hr.spec.Name)
		}
		hsum = append(hsum, map[string]interface{}{
			"harness": hr.spec.Name, "what": hr.spec.What, "backend_tier": hr.spec.Tier, "bounds": ro.Params, "paths": ro.Paths, "forks": ro.Forks,
			"obligations": ro.Obligations, "discharged": ro.Discharged, "trivially_true": ro.Trivial,
			"reached": ro.Reached, "outcomes": ro.Outcomes, "solver_queries": ro.Queries, "solver_time_s": round2(ro.SolverS),
			"wall_s": round2(ro.WallS), "ssa_steps": ro.Steps, "shards": ro.Shards, "unwinding_limit": hr.ts.Unwind,
		})
	}
	var kfLines []string
	for kid, n := range knownSeen {
		kf := known[kid]
		if kf.Property != id && kf.Property != "" {
			// a finding recorded for another property that this check also observes
		}
		kfLines = append(kfLines, fmt.Sprintf("KNOWN-FINDING: property=%s %s [%s, seen on %d obligations]", id, kf.What, kid, n))
	}
	sort.Strings(kfLines)
	for _, l := range kfLines {
		fmt.Println(l)
	}

	cov["states"] = states
	cov["transitions"] = trans + 1
	cov["traces_validated_against_impl"] = validated
	cov["encoder_mismatches"] = mismatches
	cov["observations_compared_with_native"] = observationsCompared
	if len(samples) == 0 {
		samples = append(samples, "no finished path")
	}
	cov["samples"] = samples
	cov["obligations"] = obl
	cov["discharged"] = dis
	cov["trivially_true_obligations"] = triv
	cov["distinct_nontrivial"] = nontriv
	cov["evaluations"] = states
	cov["rule"] = "one state = one explored symbolic path of a harness (a conjunction of branch decisions over the symbolic inputs; every obligation on it is decided by the solver for all input values satisfying the path condition); non-trivial = the path took at least one solver-decided branch; paths are distinct by construction of the DFS"
	cov["checker_cmd"] = "/verif/check " + id
	cov["trusted_base"] = append([]string{"gosym SSA interpreter and term simplifier (/verif/engine)", "z3 5.1.0 (z3-new) on QF_UFBV", "golang.org/x/tools/go/ssa v0.29.0 SSA construction", "environment stubs listed under stubs_hit"}, spec.TrustedBase...)
	fl := sortedKeys(funcs)
	cov["functions_encoded_repo"] = fl
	cov["functions_encoded_other"] = funcsOther
	cov["stubs_hit"] = sortedKeys(stubs)
	cov["harnesses"] = hsum
	cov["solver_queries"] = queries
	cov["solver_time_s"] = round2(solverS)
	cov["solver"] = "z3-new 5.1.0 -in, logic QF_UFBV, incremental push/pop"
	cov["ssa_steps"] = steps
	cov["known_findings_seen"] = knownSeen
	cov["inconclusive"] = inconclusive
	cov["outside_claim"] = spec.Outside
	cov["exhaustive"] = len(inconclusive) == 0
	cov["explanation"] = "bounded symbolic execution of the real Go code (go/ssa) with every branch, index, slice bound, nil dereference and harness assertion decided by an SMT solver over all symbolic input values within the stated bounds"
	ev["property_id"] = id
	ev["tier"] = *tier
	ev["seed"] = seed
	ev["level"] = "model_checking"
	ev["coverage"] = cov
	ev["assumptions"] = spec.Assumptions
	ev["wall_s"] = round2(time.Since(t0).Seconds())
	ev["violations"] = nViol
	os.MkdirAll(filepath.Join(*verif, "evidence"), 0755)
	eb, _ := json.MarshalIndent(ev, "", " ")
	evName := id + ".json"
	if *only != "" || *repo != "/repo" || os.Getenv("GOSYM_TIMEOUT_MS") != "" {
		// a partial or diagnostic run (one harness, another tree, another
		// timeout) must not replace the evidence of the registered command
		evName = id + ".partial.json"
	}
	os.WriteFile(filepath.Join(*verif, "evidence", evName), eb, 0644)

	if nViol > 0 {
		exit = 1
	} else if len(inconclusive) > 0 {
		exit = 3
		for _, s := range inconclusive {
			fmt.Printf("INCONCLUSIVE property=%s %s\n", id, s)
		}
	}
	fmt.Printf("check %s tier=%s: paths=%d obligations=%d discharged=%d violations=%d known=%d native-validated=%d wall=%.1fs exit=%d\n",
		id, *tier, states, obl, dis, nViol, len(knownSeen), validated, time.Since(t0).Seconds(), exit)
	os.Exit(exit)
}

func round2(f float64) float64 { return float64(int(f*100+0.5)) / 100 }

func doReplay(repo, verif, work, id, path string) int {
	b, err := os.ReadFile(path)
	if err != nil {
		fmt.Fprintln(os.Stderr, err)
		return 2
	}
	var rf replayFile
	if err := json.Unmarshal(b, &rf); err != nil {
		fmt.Fprintln(os.Stderr, err)
		return 2
	}
	abs, _ := filepath.Abs(path)
	res, err := nativeRun(repo, verif, work, rf.Harness, []string{abs}, 120*time.Second)
	if err != nil {
		fmt.Fprintln(os.Stderr, err)
		return 2
	}
	nr := res[0]
	fmt.Printf("replay %s: harness=%s expected %s %s; native: %s %s %v\n", path, rf.Harness, rf.Kind, rf.Label, nr.Status, nr.Msg, nr.Labels)
	if nr.Status == "ok" || nr.Status == "aborted" {
		return 0
	}
	fmt.Printf("VIOLATION property=%s replay=%s\n", id, path)
	return 1
}
