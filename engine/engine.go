package main

// Engine: program loading, per-function compilation to register form, frames.

import (
	"fmt"
	"go/constant"
	"go/token"
	"go/types"
	"math"
	"os"
	"sort"
	"strings"

	"golang.org/x/tools/go/packages"
	"golang.org/x/tools/go/ssa"
	"golang.org/x/tools/go/ssa/ssautil"
	"golang.org/x/tools/go/types/typeutil"
)

// Program is the shared, read-only part: loaded packages and SSA.
type Program struct {
	prog   *ssa.Program
	pkgs   []*packages.Package
	byPath map[string]*ssa.Package
	fset   *token.FileSet
}

func LoadProgram(dir string, overlay map[string][]byte, tags string, patterns ...string) (*Program, error) {
	cfg := &packages.Config{
		Mode:    packages.LoadAllSyntax,
		Dir:     dir,
		Overlay: overlay,
		Env:     append(os.Environ(), "GOFLAGS=-mod=mod", "GOPROXY=off", "GOSUMDB=off", "GOTOOLCHAIN=local", "CGO_ENABLED=0"),
	}
	if tags != "" {
		cfg.BuildFlags = []string{"-tags=" + tags}
	}
	pkgs, err := packages.Load(cfg, patterns...)
	if err != nil {
		return nil, err
	}
	nerr := 0
	packages.Visit(pkgs, nil, func(p *packages.Package) {
		for _, e := range p.Errors {
			if nerr < 20 {
				fmt.Fprintf(os.Stderr, "load error: %s: %v\n", p.PkgPath, e)
			}
			nerr++
		}
	})
	if nerr > 0 {
		return nil, fmt.Errorf("%d package load errors", nerr)
	}
	prog, _ := ssautil.AllPackages(pkgs, ssa.InstantiateGenerics)
	prog.Build()
	p := &Program{prog: prog, pkgs: pkgs, byPath: map[string]*ssa.Package{}, fset: prog.Fset}
	for _, sp := range prog.AllPackages() {
		p.byPath[sp.Pkg.Path()] = sp
	}
	return p, nil
}

func (p *Program) FindFunc(pkgPath, name string) *ssa.Function {
	sp := p.byPath[pkgPath]
	if sp == nil {
		return nil
	}
	return sp.Func(name)
}

type opKind uint8

const (
	okReg opKind = iota
	okConst
	okGlobal
)

type opnd struct {
	kind opKind
	reg  int
	val  Value
	g    *ssa.Global
}

type cInstr struct {
	ins ssa.Instruction
	ops []opnd
	dst int // register index for the result, -1 if none
}

type FnInfo struct {
	fn      *ssa.Function
	nregs   int
	blocks  [][]cInstr
	predIdx []map[int]int // block -> (pred block index -> position in Preds)
	nphi    []int         // number of leading phi instructions per block
	nparams int
	nfree   int
	name    string
	isRepo  bool
	harness uint8 // 0 unknown, 1 code under test / library, 2 harness or stub
}

type deferRec struct {
	callee Value   // Closure
	args   []Value // includes receiver for invoke
	ins    *ssa.Defer
}

const (
	modeNormal uint8 = iota
	modeRunDefers
	modePanicDefers
	modeRecoveredDefers
)

type Frame struct {
	fi      *FnInfo
	regs    []Value
	blk     int
	prev    int
	ip      int
	defers  []deferRec
	caller  *Frame
	dst     int
	mode    uint8
	isDefer bool
	depth   int
	backs   int // back-edge counter (unwinding limit)
}

type Thread struct {
	id        int
	top       *Frame
	panicking bool
	panicVal  Value
	panicSite string
	recovered bool
	done      bool
	result    Value

	// thread mode
	vc          vclock
	resumed     bool
	waitJoin    bool
	blockedOn   *Node
	blockedKind int
}

// Engine is one worker: its own term table, solver, heap and exploration state.
type Engine struct {
	P  *Program
	tt *TermTable
	sv *Solver

	fnInfo    map[*ssa.Function]*FnInfo
	globals   map[*ssa.Global]*Node
	zeroCache map[types.Type]Value
	scalarC   map[types.Type]scalarInfo
	methCache map[methKey]*ssa.Function
	implCache typeutil.Map
	typeIDs   typeutil.Map
	initDone  map[*ssa.Package]bool
	initBusy  map[*ssa.Package]bool

	redirects  map[string]*ssa.Function
	resolved   map[*ssa.Function]*calleeRes
	unwindFn   string // function whose loop hit the unwinding limit on this path
	intrinsics map[string]intrinsicFn

	nodeSeq     int
	mapSeq      int
	epoch       int
	trail       []trailEntry
	trailAlways bool

	th      *Thread
	threads []*Thread

	// path state (saved/restored at forks)
	ps pathState

	pre       []decision
	preUsed   int
	decSeq    int
	stepMark  int
	stepPS    pathSave
	done      bool
	outcome   string
	inRoot    bool
	stepCount int64

	cfg   Config
	stats Stats
	res   *Results

	funcsSeen map[*ssa.Function]bool
	stubsHit  map[string]bool

	clock        int64
	race         raceState
	raceOn       bool
	racesSeen    map[string]bool
	blobs        []blobEntry
	unsupSeen    map[string]bool
	rtypes       typeutil.Map
	inInitOf     *ssa.Package
	uniq         map[string]*Node
	panicStack   string
	curDst       int
	pendingAdv   *Frame
	stepTop      *Frame
	stepFr       Frame
	stepTh       Thread
	stepThread   *Thread
	stepNThreads int
	stepRaceOn   bool
}

type methKey struct {
	t    types.Type
	name string
}

type scalarInfo struct {
	w      uint16
	signed bool
	kind   uint8 // 0 other, 1 bool, 2 int, 3 float, 4 string
}

func NewEngine(P *Program, cfg Config) (*Engine, error) {
	e := &Engine{P: P, cfg: cfg}
	e.tt = NewTermTable()
	sv, err := NewSolver(e.tt, cfg.SolverTimeoutMs)
	if err != nil {
		return nil, err
	}
	e.sv = sv
	e.fnInfo = map[*ssa.Function]*FnInfo{}
	e.globals = map[*ssa.Global]*Node{}
	e.zeroCache = map[types.Type]Value{}
	e.scalarC = map[types.Type]scalarInfo{}
	e.methCache = map[methKey]*ssa.Function{}
	e.initDone = map[*ssa.Package]bool{}
	e.initBusy = map[*ssa.Package]bool{}
	e.redirects = map[string]*ssa.Function{}
	e.resolved = map[*ssa.Function]*calleeRes{}
	e.intrinsics = map[string]intrinsicFn{}
	e.funcsSeen = map[*ssa.Function]bool{}
	e.stubsHit = map[string]bool{}
	e.res = newResults()
	e.ps.eqs = map[*Term]uint64{}
	e.ps.lits = map[*Term]bool{}
	e.race = raceState{acc: map[locKey]accInfo{}, locks: map[*Node]vclock{}}
	e.racesSeen = map[string]bool{}
	e.ps.ufApps = map[string][][2]*Term{}
	registerIntrinsics(e)
	return e, nil
}

func (e *Engine) scalar(t types.Type) scalarInfo {
	if si, ok := e.scalarC[t]; ok {
		return si
	}
	var si scalarInfo
	switch u := t.Underlying().(type) {
	case *types.Basic:
		switch u.Kind() {
		case types.Bool, types.UntypedBool:
			si = scalarInfo{0, false, 1}
		case types.Int8:
			si = scalarInfo{8, true, 2}
		case types.Int16:
			si = scalarInfo{16, true, 2}
		case types.Int32, types.UntypedRune:
			si = scalarInfo{32, true, 2}
		case types.Int, types.Int64, types.UntypedInt:
			si = scalarInfo{64, true, 2}
		case types.Uint8:
			si = scalarInfo{8, false, 2}
		case types.Uint16:
			si = scalarInfo{16, false, 2}
		case types.Uint32:
			si = scalarInfo{32, false, 2}
		case types.Uint, types.Uint64, types.Uintptr:
			si = scalarInfo{64, false, 2}
		case types.Float32:
			si = scalarInfo{32, true, 3}
		case types.Float64, types.UntypedFloat:
			si = scalarInfo{64, true, 3}
		case types.String, types.UntypedString:
			si = scalarInfo{0, false, 4}
		}
	}
	e.scalarC[t] = si
	return si
}

func (e *Engine) constValue(c *ssa.Const) Value {
	t := c.Type()
	if c.Value == nil {
		return e.zero(t)
	}
	si := e.scalar(t)
	switch si.kind {
	case 1:
		return boolV(constant.BoolVal(c.Value))
	case 2:
		if si.signed {
			return Value{N: uint64(c.Int64()) & mask(si.w)}
		}
		return Value{N: c.Uint64() & mask(si.w)}
	case 3:
		f := c.Float64()
		if si.w == 32 {
			return Value{N: uint64(math.Float32bits(float32(f)))}
		}
		return Value{N: math.Float64bits(f)}
	case 4:
		return strV(constant.StringVal(c.Value))
	}
	// typeparam-free: other constant kinds (complex) unsupported
	if _, ok := t.Underlying().(*types.Basic); ok {
		return Value{}
	}
	return e.zero(t)
}

func (e *Engine) info(fn *ssa.Function) *FnInfo {
	if fi, ok := e.fnInfo[fn]; ok {
		return fi
	}
	fi := &FnInfo{fn: fn, name: fn.String()}
	if fn.Pkg != nil {
		fi.isRepo = strings.HasPrefix(fn.Pkg.Pkg.Path(), "github.com/johannesboyne/gofakes3")
	}
	e.fnInfo[fn] = fi
	regOf := map[ssa.Value]int{}
	n := 0
	for _, p := range fn.Params {
		regOf[p] = n
		n++
	}
	fi.nparams = len(fn.Params)
	for _, fv := range fn.FreeVars {
		regOf[fv] = n
		n++
	}
	fi.nfree = len(fn.FreeVars)
	for _, b := range fn.Blocks {
		for _, ins := range b.Instrs {
			if v, ok := ins.(ssa.Value); ok {
				regOf[v] = n
				n++
			}
		}
	}
	fi.nregs = n
	fi.blocks = make([][]cInstr, len(fn.Blocks))
	fi.predIdx = make([]map[int]int, len(fn.Blocks))
	fi.nphi = make([]int, len(fn.Blocks))
	var rands []*ssa.Value
	for bi, b := range fn.Blocks {
		pm := map[int]int{}
		for i, p := range b.Preds {
			pm[p.Index] = i
		}
		fi.predIdx[bi] = pm
		code := make([]cInstr, len(b.Instrs))
		for _, ins := range b.Instrs {
			if _, ok := ins.(*ssa.Phi); !ok {
				break
			}
			fi.nphi[bi]++
		}
		for ii, ins := range b.Instrs {
			ci := cInstr{ins: ins, dst: -1}
			if v, ok := ins.(ssa.Value); ok {
				ci.dst = regOf[v]
			}
			rands = ins.Operands(rands[:0])
			ci.ops = make([]opnd, len(rands))
			for oi, rp := range rands {
				if rp == nil || *rp == nil {
					ci.ops[oi] = opnd{kind: okConst}
					continue
				}
				switch x := (*rp).(type) {
				case *ssa.Const:
					ci.ops[oi] = opnd{kind: okConst, val: e.constValue(x)}
				case *ssa.Global:
					ci.ops[oi] = opnd{kind: okGlobal, g: x}
				case *ssa.Function:
					ci.ops[oi] = opnd{kind: okConst, val: Value{O: &Closure{fn: x}}}
				case *ssa.Builtin:
					ci.ops[oi] = opnd{kind: okConst, val: Value{O: &Closure{bi: x}}}
				default:
					r, ok := regOf[x]
					if !ok {
						panic(fmt.Sprintf("no register for %T %v in %s", x, x, fn))
					}
					ci.ops[oi] = opnd{kind: okReg, reg: r}
				}
			}
			code[ii] = ci
		}
		fi.blocks[bi] = code
	}
	return fi
}

func (e *Engine) globalNode(g *ssa.Global) *Node {
	if n, ok := e.globals[g]; ok {
		return n
	}
	if !e.inRoot {
		// first touched on a path: allocate as root object so it persists; any
		// writes are trailed because born(0) != epoch.
	}
	save := e.epoch
	e.epoch = 0
	n := e.newNode(g.Type().(*types.Pointer).Elem())
	e.epoch = save
	e.globals[g] = n
	return n
}

func (e *Engine) operand(fr *Frame, o *opnd) Value {
	switch o.kind {
	case okReg:
		return fr.regs[o.reg]
	case okConst:
		return o.val
	default:
		e.ensureInit(o.g.Pkg)
		return Value{O: Ptr{e.globalNode(o.g), -1}}
	}
}

func (e *Engine) posOf(ins ssa.Instruction) string {
	if ins == nil {
		return "?"
	}
	p := ins.Pos()
	if !p.IsValid() {
		return ins.Parent().String()
	}
	pos := e.P.fset.Position(p)
	return fmt.Sprintf("%s:%d", shortPath(pos.Filename), pos.Line)
}

func shortPath(s string) string {
	if i := strings.Index(s, "/repo/"); i >= 0 {
		return s[i+6:]
	}
	if i := strings.LastIndex(s, "/src/"); i >= 0 {
		return s[i+5:]
	}
	if i := strings.Index(s, "/pkg/mod/"); i >= 0 {
		return s[i+9:]
	}
	return s
}

func (e *Engine) stackTrace(th *Thread) string {
	var sb strings.Builder
	for fr := th.top; fr != nil; fr = fr.caller {
		var ins ssa.Instruction
		if fr.blk < len(fr.fi.blocks) {
			code := fr.fi.blocks[fr.blk]
			ip := fr.ip
			if fr != th.top {
				ip--
			}
			if ip >= 0 && ip < len(code) {
				ins = code[ip].ins
			}
		}
		fmt.Fprintf(&sb, "  %s (%s)\n", fr.fi.name, e.posOf(ins))
	}
	return sb.String()
}

func sortedKeys(m map[string]bool) []string {
	r := make([]string, 0, len(m))
	for k := range m {
		r = append(r, k)
	}
	sort.Strings(r)
	return r
}
