package main

// UTF-8 decoding/encoding over symbolic bytes (forks per byte class).

func (e *Engine) byteIn(b Value, lo, hi uint64) bool {
	if b.T == nil {
		return b.N >= lo && b.N <= hi
	}
	c := e.tt.And(e.tt.Ule(e.tt.Const(lo, 8), b.T), e.tt.Ule(b.T, e.tt.Const(hi, 8)))
	return e.branch(c)
}

func (e *Engine) z32(b Value) *Term { return e.tt.Zext(e.term(b, 8), 32) }

// decodeRuneSym decodes the first rune of the byte values bs (len >= 1)
// exactly as utf8.DecodeRune does; returns the rune (32-bit value) and size.
func (e *Engine) decodeRuneSym(bs []Value) (Value, int) {
	tt := e.tt
	b0 := bs[0]
	runeErr := Value{N: 0xFFFD}
	if e.byteIn(b0, 0, 0x7F) {
		return scalarOfTerm(e.z32(b0)), 1
	}
	cont := func(b Value) *Term { return tt.BAnd(e.z32(b), tt.Const(0x3F, 32)) }
	shl := func(t *Term, n uint64) *Term { return tt.bin(OpShl, t, tt.Const(n, 32)) }
	if e.byteIn(b0, 0xC2, 0xDF) {
		if len(bs) < 2 || !e.byteIn(bs[1], 0x80, 0xBF) {
			return runeErr, 1
		}
		r := tt.BOr(shl(tt.BAnd(e.z32(b0), tt.Const(0x1F, 32)), 6), cont(bs[1]))
		return scalarOfTerm(r), 2
	}
	if e.byteIn(b0, 0xE0, 0xEF) {
		lo, hi := uint64(0x80), uint64(0xBF)
		if e.byteIn(b0, 0xE0, 0xE0) {
			lo = 0xA0
		} else if e.byteIn(b0, 0xED, 0xED) {
			hi = 0x9F
		}
		if len(bs) < 2 || !e.byteIn(bs[1], lo, hi) {
			return runeErr, 1
		}
		if len(bs) < 3 || !e.byteIn(bs[2], 0x80, 0xBF) {
			return runeErr, 1
		}
		r := tt.BOr(tt.BOr(shl(tt.BAnd(e.z32(b0), tt.Const(0x0F, 32)), 12), shl(cont(bs[1]), 6)), cont(bs[2]))
		return scalarOfTerm(r), 3
	}
	if e.byteIn(b0, 0xF0, 0xF4) {
		lo, hi := uint64(0x80), uint64(0xBF)
		if e.byteIn(b0, 0xF0, 0xF0) {
			lo = 0x90
		} else if e.byteIn(b0, 0xF4, 0xF4) {
			hi = 0x8F
		}
		if len(bs) < 2 || !e.byteIn(bs[1], lo, hi) {
			return runeErr, 1
		}
		if len(bs) < 3 || !e.byteIn(bs[2], 0x80, 0xBF) {
			return runeErr, 1
		}
		if len(bs) < 4 || !e.byteIn(bs[3], 0x80, 0xBF) {
			return runeErr, 1
		}
		r := tt.BOr(tt.BOr(tt.BOr(shl(tt.BAnd(e.z32(b0), tt.Const(0x07, 32)), 18), shl(cont(bs[1]), 12)), shl(cont(bs[2]), 6)), cont(bs[3]))
		return scalarOfTerm(r), 4
	}
	return runeErr, 1
}

// encodeRuneSym renders a (possibly symbolic) rune as UTF-8 byte values.
func (e *Engine) encodeRuneSym(r Value) []Value {
	tt := e.tt
	t := e.term(r, 32)
	lt := func(n uint64) bool { return e.branch(tt.Ult(t, tt.Const(n, 32))) }
	ext := func(x *Term) Value { return scalarOfTerm(tt.Extract(x, 7, 0)) }
	shr := func(n uint64) *Term { return tt.bin(OpLshr, t, tt.Const(n, 32)) }
	c6 := func(x *Term) *Term {
		return tt.BOr(tt.BAnd(x, tt.Const(0x3F, 32)), tt.Const(0x80, 32))
	}
	errBytes := []Value{{N: 0xEF}, {N: 0xBF}, {N: 0xBD}}
	if lt(0x80) {
		return []Value{ext(t)}
	}
	if lt(0x800) {
		return []Value{ext(tt.BOr(shr(6), tt.Const(0xC0, 32))), ext(c6(t))}
	}
	if !lt(0xD800) && lt(0xE000) {
		return errBytes
	}
	if lt(0x10000) {
		return []Value{ext(tt.BOr(shr(12), tt.Const(0xE0, 32))), ext(c6(shr(6))), ext(c6(t))}
	}
	if lt(0x110000) {
		return []Value{ext(tt.BOr(shr(18), tt.Const(0xF0, 32))), ext(c6(shr(12))), ext(c6(shr(6))), ext(c6(t))}
	}
	return errBytes
}
