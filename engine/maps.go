package main

// Maps: insertion-ordered entry lists, copy-on-write, symbolic-key lookups.

import (
	"fmt"
	"go/types"
	"strconv"
	"strings"
)

func (e *Engine) newMap(kt, vt types.Type) *MapObj {
	e.mapSeq++
	return &MapObj{d: &MapData{idx: map[string]int{}}, kt: kt, vt: vt, id: e.mapSeq}
}

// keyString gives a canonical string for a fully concrete key.
func (e *Engine) keyString(v Value, t types.Type, sb *strings.Builder) bool {
	if v.T != nil {
		return false
	}
	switch o := v.O.(type) {
	case nil:
		sb.WriteString(strconv.FormatUint(v.N, 16))
		sb.WriteByte(';')
		return true
	case *Str:
		if o.b != nil {
			return false
		}
		sb.WriteString(strconv.Itoa(len(o.s)))
		sb.WriteByte(':')
		sb.WriteString(o.s)
		return true
	case Ptr:
		fmt.Fprintf(sb, "p%d.%d;", o.n.id, o.idx)
		return true
	case *Iface:
		sb.WriteString("i<")
		sb.WriteString(e.typeID(o.t))
		sb.WriteByte('>')
		return e.keyString(o.v, o.t, sb)
	case *Tuple:
		sb.WriteByte('{')
		for _, x := range o.e {
			if !e.keyString(x, nil, sb) {
				return false
			}
		}
		sb.WriteByte('}')
		return true
	case *MapObj:
		fmt.Fprintf(sb, "m%d;", o.id)
		return true
	case *Closure:
		fmt.Fprintf(sb, "f%p;", o)
		return true
	}
	return false
}

func (e *Engine) typeID(t types.Type) string {
	if v := e.typeIDs.At(t); v != nil {
		return v.(string)
	}
	s := strconv.Itoa(e.typeIDs.Len())
	e.typeIDs.Set(t, s)
	return s
}

// mapFind returns the entry index for key k (-1 if absent); may fork on
// symbolic equality.
func (e *Engine) mapFind(m *MapObj, k Value) int {
	d := m.d
	if len(d.keys) == 0 {
		return -1
	}
	if !d.hasSym {
		var sb strings.Builder
		if e.keyString(k, m.kt, &sb) {
			if i, ok := d.idx[sb.String()]; ok {
				return i
			}
			return -1
		}
	}
	// symbolic: compare with each entry
	var alts []alt
	none := e.tt.tTrue
	for i := range d.keys {
		eq := e.valEq(k, d.keys[i], m.kt)
		if eq.IsTrue() {
			if len(alts) == 0 {
				return i
			}
			alts = append(alts, alt{cond: none, payload: int64(i)})
			none = e.tt.tFalse
			break
		}
		if eq.IsFalse() {
			continue
		}
		alts = append(alts, alt{cond: e.tt.And(none, eq), payload: int64(i)})
		none = e.tt.And(none, e.tt.Not(eq))
	}
	if len(alts) == 0 {
		return -1
	}
	alts = append(alts, alt{cond: none, payload: -1})
	_, p := e.decide("map-lookup", alts)
	return int(p)
}

func (e *Engine) mapGetConcreteOrSym(m *MapObj, k Value) (Value, bool) {
	i := e.mapFind(m, k)
	if i < 0 {
		return Value{}, false
	}
	return m.d.vals[i], true
}

func (e *Engine) mapLookup(mv, k Value, mt *types.Map, commaOk bool) Value {
	var v Value
	found := false
	if mv.O != nil {
		m := mv.O.(*MapObj)
		if e.raceOn {
			e.noteRead(locKey{m: m})
		}
		v, found = e.mapGetConcreteOrSym(m, k)
	}
	if !found {
		v = e.zero(mt.Elem())
	}
	if commaOk {
		return Value{O: &Tuple{e: []Value{v, boolV(found)}}}
	}
	return v
}

func (e *Engine) mapSetData(m *MapObj, d *MapData) {
	e.trail = append(e.trail, trailEntry{m: m, md: m.d})
	m.d = d
}

func (e *Engine) mapUpdate(mv, k, v Value) {
	if mv.O == nil {
		e.goPanicStr("assignment to entry in nil map")
		panic(goPanicSignal{})
	}
	m := mv.O.(*MapObj)
	if e.raceOn {
		e.noteWrite(locKey{m: m})
	}
	i := e.mapFind(m, k)
	old := m.d
	nd := &MapData{hasSym: old.hasSym}
	if i >= 0 {
		nd.keys = old.keys
		nd.vals = append([]Value(nil), old.vals...)
		nd.vals[i] = v
		nd.idx = old.idx
		e.mapSetData(m, nd)
		return
	}
	nd.keys = append(append(make([]Value, 0, len(old.keys)+1), old.keys...), k)
	nd.vals = append(append(make([]Value, 0, len(old.vals)+1), old.vals...), v)
	var sb strings.Builder
	if !old.hasSym && e.keyString(k, m.kt, &sb) {
		nd.idx = make(map[string]int, len(old.idx)+1)
		for kk, vv := range old.idx {
			nd.idx[kk] = vv
		}
		nd.idx[sb.String()] = len(nd.keys) - 1
	} else {
		nd.hasSym = true
		nd.idx = nil
	}
	e.mapSetData(m, nd)
}

func (e *Engine) mapDelete(mv, k Value) {
	if mv.O == nil {
		return
	}
	m := mv.O.(*MapObj)
	if e.raceOn {
		e.noteWrite(locKey{m: m})
	}
	i := e.mapFind(m, k)
	if i < 0 {
		return
	}
	old := m.d
	nd := &MapData{}
	nd.keys = append(append(make([]Value, 0, len(old.keys)), old.keys[:i]...), old.keys[i+1:]...)
	nd.vals = append(append(make([]Value, 0, len(old.vals)), old.vals[:i]...), old.vals[i+1:]...)
	e.reindex(m, nd)
	e.mapSetData(m, nd)
}

func (e *Engine) reindex(m *MapObj, nd *MapData) {
	nd.idx = make(map[string]int, len(nd.keys))
	nd.hasSym = false
	for i, k := range nd.keys {
		var sb strings.Builder
		if !e.keyString(k, m.kt, &sb) {
			nd.hasSym = true
			nd.idx = nil
			return
		}
		nd.idx[sb.String()] = i
	}
}

func (e *Engine) mapClear(mv Value) {
	if mv.O == nil {
		return
	}
	m := mv.O.(*MapObj)
	e.mapSetData(m, &MapData{idx: map[string]int{}})
}
