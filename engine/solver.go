package main

// Solver driver: one long-lived `z3 -in` process, push/pop mirroring the DFS,
// shared nodes emitted once per scope as define-fun.

import (
	"bufio"
	"fmt"
	"io"
	"os"
	"os/exec"
	"strconv"
	"strings"
	"time"
)

type SatResult int

const (
	Unsat SatResult = iota
	Sat
	Unknown
)

func (r SatResult) String() string { return [...]string{"unsat", "sat", "unknown"}[r] }

type scope struct {
	defined []*Term
	ufs     []string
}

type Solver struct {
	tt      *TermTable
	cmd     *exec.Cmd
	in      io.WriteCloser
	out     *bufio.Reader
	defined map[*Term]bool
	ufDecl  map[string]bool
	scopes  []scope
	buf     strings.Builder

	Queries   int
	Time      time.Duration
	Unknowns  int
	Errors    int
	LastError string
	timeoutMs int
	bin       string
	args      []string
	script    io.Writer // optional transcript
	logic     string
}

func NewSolver(tt *TermTable, timeoutMs int) (*Solver, error) {
	s := &Solver{tt: tt, defined: map[*Term]bool{}, ufDecl: map[string]bool{}, timeoutMs: timeoutMs, bin: "z3-new", args: []string{"-in"}, logic: "QF_UFBV"}
	if b := os.Getenv("GOSYM_SOLVER"); b != "" {
		f := strings.Fields(b)
		s.bin, s.args = f[0], f[1:]
		s.logic = os.Getenv("GOSYM_LOGIC")
	}
	if err := s.start(); err != nil {
		return nil, err
	}
	return s, nil
}

func (s *Solver) start() error {
	s.cmd = exec.Command(s.bin, s.args...)
	in, err := s.cmd.StdinPipe()
	if err != nil {
		return err
	}
	out, err := s.cmd.StdoutPipe()
	if err != nil {
		return err
	}
	s.cmd.Stderr = nil
	if err := s.cmd.Start(); err != nil {
		return err
	}
	s.in = in
	s.out = bufio.NewReaderSize(out, 1<<16)
	s.scopes = []scope{{}}
	if p := os.Getenv("GOSYM_SMT"); p != "" && s.script == nil {
		f, _ := os.Create(p)
		s.script = f
	}
	if s.logic != "" {
		s.send("(set-logic " + s.logic + ")\n")
	}
	s.send(fmt.Sprintf("(set-option :timeout %d)\n(set-option :print-success false)\n", s.timeoutMs))
	return nil
}

func (s *Solver) Close() {
	if s.cmd != nil {
		s.in.Close()
		s.cmd.Process.Kill()
		s.cmd.Wait()
		s.cmd = nil
	}
}

func (s *Solver) send(str string) {
	if s.script != nil {
		io.WriteString(s.script, str)
	}
	io.WriteString(s.in, str)
}

func (s *Solver) Depth() int { return len(s.scopes) - 1 }

func (s *Solver) Push() {
	s.scopes = append(s.scopes, scope{})
	s.buf.WriteString("(push)\n")
}

func (s *Solver) Pop() {
	sc := s.scopes[len(s.scopes)-1]
	for _, t := range sc.defined {
		delete(s.defined, t)
	}
	for _, u := range sc.ufs {
		delete(s.ufDecl, u)
	}
	s.scopes = s.scopes[:len(s.scopes)-1]
	s.buf.WriteString("(pop)\n")
}

func (s *Solver) ref(t *Term) string {
	switch t.op {
	case OpConst:
		return smtConst(t)
	case OpVar:
		return smtVarName(t.name)
	}
	return "t" + strconv.Itoa(t.id)
}

// define makes sure t and all its descendants are declared in the solver.
func (s *Solver) define(t *Term) {
	if t.op == OpConst || s.defined[t] {
		return
	}
	// iterative post-order to avoid deep recursion
	type item struct {
		t    *Term
		done bool
	}
	stack := []item{{t, false}}
	for len(stack) > 0 {
		it := stack[len(stack)-1]
		stack = stack[:len(stack)-1]
		x := it.t
		if x.op == OpConst || s.defined[x] {
			continue
		}
		if !it.done {
			stack = append(stack, item{x, true})
			for _, a := range x.a {
				if a != nil && a.op != OpConst && !s.defined[a] {
					stack = append(stack, item{a, false})
				}
			}
			continue
		}
		sc := &s.scopes[len(s.scopes)-1]
		s.defined[x] = true
		sc.defined = append(sc.defined, x)
		b := &s.buf
		switch x.op {
		case OpVar:
			fmt.Fprintf(b, "(declare-const %s %s)\n", smtVarName(x.name), sortOf(x.w))
			continue
		case OpUF:
			if !s.ufDecl[x.name] {
				s.ufDecl[x.name] = true
				sc.ufs = append(sc.ufs, x.name)
				if x.a[0] != nil {
					fmt.Fprintf(b, "(declare-fun %s (%s) %s)\n", x.name, sortOf(x.a[0].w), sortOf(x.w))
				} else {
					fmt.Fprintf(b, "(declare-fun %s () %s)\n", x.name, sortOf(x.w))
				}
			}
			if x.a[0] != nil {
				fmt.Fprintf(b, "(define-fun t%d () %s (%s %s))\n", x.id, sortOf(x.w), x.name, s.ref(x.a[0]))
			} else {
				fmt.Fprintf(b, "(define-fun t%d () %s %s)\n", x.id, sortOf(x.w), x.name)
			}
			continue
		}
		fmt.Fprintf(b, "(define-fun t%d () %s ", x.id, sortOf(x.w))
		switch x.op {
		case OpExtract:
			fmt.Fprintf(b, "((_ extract %d %d) %s)", x.c>>16, x.c&0xffff, s.ref(x.a[0]))
		case OpZext:
			fmt.Fprintf(b, "((_ zero_extend %d) %s)", x.w-x.a[0].w, s.ref(x.a[0]))
		case OpSext:
			fmt.Fprintf(b, "((_ sign_extend %d) %s)", x.w-x.a[0].w, s.ref(x.a[0]))
		default:
			b.WriteString("(" + opNames[x.op])
			for _, a := range x.a {
				if a != nil {
					b.WriteString(" " + s.ref(a))
				}
			}
			b.WriteString(")")
		}
		b.WriteString(")\n")
	}
}

func (s *Solver) Assert(t *Term) {
	s.define(t)
	fmt.Fprintf(&s.buf, "(assert %s)\n", s.ref(t))
}

func (s *Solver) flush() {
	if s.buf.Len() > 0 {
		s.send(s.buf.String())
		s.buf.Reset()
	}
}

func (s *Solver) readLine() string {
	line, err := s.out.ReadString('\n')
	if err != nil {
		return "(error \"solver died: " + err.Error() + "\")"
	}
	return strings.TrimSpace(line)
}

// Check runs check-sat on the current assertion stack.
func (s *Solver) Check() SatResult {
	s.buf.WriteString("(check-sat)\n")
	t0 := time.Now()
	s.flush()
	s.Queries++
	res := Unknown
	sawErr := false
	for {
		line := s.readLine()
		if line == "" {
			continue
		}
		if strings.HasPrefix(line, "(error") {
			s.Errors++
			sawErr = true
			if s.LastError == "" {
				s.LastError = line
			}
			if strings.Contains(line, "solver died") {
				break
			}
			continue
		}
		switch line {
		case "sat":
			res = Sat
		case "unsat":
			res = Unsat
		case "unknown", "timeout":
			res = Unknown
		default:
			continue // continuation of a multi-line error message
		}
		break
	}
	if sawErr {
		res = Unknown
	}
	if res == Unknown {
		s.Unknowns++
	}
	s.Time += time.Since(t0)
	return res
}

// CheckAssuming checks the current stack plus extra (in a temporary scope).
func (s *Solver) CheckWith(extra ...*Term) SatResult {
	s.Push()
	for _, e := range extra {
		s.Assert(e)
	}
	r := s.Check()
	s.Pop()
	return r
}

// Model fetches values for the given variable terms after a Sat answer. Must
// be called before the scope of the check is popped.
func (s *Solver) Model(vars []*Term) map[string]uint64 {
	m := map[string]uint64{}
	if len(vars) == 0 {
		return m
	}
	var b strings.Builder
	b.WriteString("(get-value (")
	n := 0
	for _, v := range vars {
		if !s.defined[v] {
			continue // not constrained in this scope: any value works
		}
		b.WriteString(smtVarName(v.name) + " ")
		n++
	}
	b.WriteString("))\n")
	if n == 0 {
		return m
	}
	s.flush()
	s.send(b.String())
	// read a balanced s-expression
	var sb strings.Builder
	depth := 0
	started := false
	for {
		line := s.readLine()
		if strings.HasPrefix(line, "(error") {
			s.Errors++
			return m
		}
		sb.WriteString(line + " ")
		for i := 0; i < len(line); i++ {
			switch line[i] {
			case '(':
				depth++
				started = true
			case ')':
				depth--
			case '|':
				// skip quoted symbol
				j := strings.IndexByte(line[i+1:], '|')
				if j >= 0 {
					i += j + 1
				}
			}
		}
		if started && depth <= 0 {
			break
		}
	}
	parseModel(sb.String(), m)
	return m
}

func parseModel(txt string, m map[string]uint64) {
	// format: ((|name| #x..) (|name2| true) ...)
	i := 0
	for i < len(txt) {
		j := strings.IndexByte(txt[i:], '|')
		if j < 0 {
			break
		}
		i += j + 1
		k := strings.IndexByte(txt[i:], '|')
		if k < 0 {
			break
		}
		name := txt[i : i+k]
		i += k + 1
		// value up to ')'
		e := strings.IndexByte(txt[i:], ')')
		if e < 0 {
			break
		}
		val := strings.TrimSpace(txt[i : i+e])
		i += e + 1
		switch {
		case val == "true":
			m[name] = 1
		case val == "false":
			m[name] = 0
		case strings.HasPrefix(val, "#x"):
			v, _ := strconv.ParseUint(val[2:], 16, 64)
			m[name] = v
		case strings.HasPrefix(val, "#b"):
			v, _ := strconv.ParseUint(val[2:], 2, 64)
			m[name] = v
		case strings.HasPrefix(val, "(_ bv"):
			f := strings.Fields(val[5:])
			v, _ := strconv.ParseUint(f[0], 10, 64)
			m[name] = v
		}
	}
}

// Reset restarts the solver process (used after a fatal error).
func (s *Solver) Reset() {
	s.Close()
	s.defined = map[*Term]bool{}
	s.ufDecl = map[string]bool{}
	s.buf.Reset()
	s.start()
}
