package main

import (
	"encoding/json"
	"flag"
	"fmt"
	"os"
	"path/filepath"
	"runtime"
	"runtime/debug"
	"runtime/pprof"
	"sort"
	"strconv"
	"strings"
	"time"
)

const repoMod = "github.com/johannesboyne/gofakes3"

// overlayFiles maps harness sources under verifDir/harness into virtual paths
// inside repoDir.
func overlayFiles(repoDir, verifDir string) (map[string]string, error) {
	m := map[string]string{}
	add := func(srcDir, dstDir, prefix string) error {
		ents, err := os.ReadDir(srcDir)
		if err != nil {
			if os.IsNotExist(err) {
				return nil
			}
			return err
		}
		for _, en := range ents {
			if en.IsDir() || !strings.HasSuffix(en.Name(), ".go") {
				continue
			}
			m[filepath.Join(dstDir, prefix+en.Name())] = filepath.Join(srcDir, en.Name())
		}
		return nil
	}
	h := filepath.Join(verifDir, "harness")
	if err := add(filepath.Join(h, "vsym"), filepath.Join(repoDir, "internal/vsym"), ""); err != nil {
		return nil, err
	}
	if err := add(filepath.Join(h, "vstub"), filepath.Join(repoDir, "internal/vstub"), ""); err != nil {
		return nil, err
	}
	if err := add(filepath.Join(h, "vharn"), filepath.Join(repoDir, "internal/vharn"), ""); err != nil {
		return nil, err
	}
	if err := add(filepath.Join(h, "root"), repoDir, "zz_vh_"); err != nil {
		return nil, err
	}
	if err := add(filepath.Join(h, "s3mem"), filepath.Join(repoDir, "backend/s3mem"), "zz_vh_"); err != nil {
		return nil, err
	}
	if err := add(filepath.Join(h, "s3afero"), filepath.Join(repoDir, "backend/s3afero"), "zz_vh_"); err != nil {
		return nil, err
	}
	if err := add(filepath.Join(h, "s3bolt"), filepath.Join(repoDir, "backend/s3bolt"), "zz_vh_"); err != nil {
		return nil, err
	}
	return m, nil
}

func loadOverlay(files map[string]string) (map[string][]byte, error) {
	ov := map[string][]byte{}
	for virt, realp := range files {
		b, err := os.ReadFile(realp)
		if err != nil {
			return nil, err
		}
		ov[virt] = b
	}
	return ov, nil
}

func parseParams(s string) map[string]int64 {
	m := map[string]int64{}
	if s == "" {
		return m
	}
	for _, kv := range strings.Split(s, ",") {
		i := strings.IndexByte(kv, '=')
		if i < 0 {
			continue
		}
		v, err := strconv.ParseInt(kv[i+1:], 10, 64)
		if err != nil {
			fmt.Fprintf(os.Stderr, "bad param %q\n", kv)
			os.Exit(2)
		}
		m[kv[:i]] = v
	}
	return m
}

type RunOutput struct {
	Harness     string             `json:"harness"`
	Params      map[string]int64   `json:"params"`
	Shards      int                `json:"shards"`
	Paths       int                `json:"paths"`
	PathsNontr  int                `json:"paths_nontrivial"`
	Forks       int                `json:"forks"`
	Obligations int                `json:"obligations"`
	Discharged  int                `json:"discharged"`
	Trivial     int                `json:"trivially_true"`
	Violations  []*Violation       `json:"violations"`
	KnownSeen   map[string]int     `json:"known_seen"`
	Reached     map[string]int     `json:"reached"`
	Unsupported map[string]int     `json:"unsupported"`
	Inconcl     int                `json:"inconclusive"`
	InconcNotes map[string]int     `json:"inconclusive_notes"`
	UnwindHits  int                `json:"unwind_hits"`
	AssumeFalse int                `json:"assume_false_paths"`
	Outcomes    map[string]int     `json:"outcomes"`
	Samples     []PathSample       `json:"samples"`
	Truncated   bool               `json:"truncated"`
	Steps       int64              `json:"ssa_steps"`
	Queries     int                `json:"solver_queries"`
	SolverS     float64            `json:"solver_time_s"`
	SolverUnk   int                `json:"solver_unknowns"`
	SolverErr   int                `json:"solver_errors"`
	SolverMsg   string             `json:"solver_last_error,omitempty"`
	WallS       float64            `json:"wall_s"`
	LoadS       float64            `json:"load_s"`
	FuncsRepo   []string           `json:"functions_repo"`
	FuncsOther  int                `json:"functions_other"`
	Stubs       []string           `json:"stubs_hit"`
	Errors      []string           `json:"errors"`
	ShardWall   map[string]float64 `json:"-"`
	ForkSites   map[string]int     `json:"-"`
}

func main() {
	if len(os.Args) < 2 {
		fmt.Fprintln(os.Stderr, "usage: gosym run|check ...")
		os.Exit(2)
	}
	// the live heap (SSA program, term tables) is large and long-lived while
	// the per-path garbage is short-lived: collect less often
	debug.SetGCPercent(400)
	if pf := os.Getenv("GOSYM_CPUPROFILE"); pf != "" {
		f, err := os.Create(pf)
		if err == nil {
			pprof.StartCPUProfile(f)
			defer pprof.StopCPUProfile()
		}
	}
	switch os.Args[1] {
	case "run":
		cmdRun(os.Args[2:])
	case "check":
		cmdCheck(os.Args[2:])
	default:
		fmt.Fprintln(os.Stderr, "unknown command")
		os.Exit(2)
	}
}

type runOpts struct {
	repo, verif string
	harness     string
	params      map[string]int64
	shards      int
	shardDepth  int
	timeoutMs   int
	known       map[string]KnownFinding
	verbose     int
	maxPaths    int
	maxBack     int
	maxSteps    int64
	deadline    time.Duration
	stopOnViol  bool
}

func loadKnown(path string) map[string]KnownFinding {
	m := map[string]KnownFinding{}
	b, err := os.ReadFile(path)
	if err != nil {
		return m
	}
	var f struct {
		Findings []KnownFinding `json:"findings"`
	}
	if err := json.Unmarshal(b, &f); err != nil {
		fmt.Fprintf(os.Stderr, "bad known-findings file: %v\n", err)
		os.Exit(2)
	}
	for _, k := range f.Findings {
		m[k.ID] = k
	}
	return m
}

var progCache *Program
var progLoadS float64

func getProgram(repo, verif string) (*Program, error) {
	if progCache != nil {
		return progCache, nil
	}
	t0 := time.Now()
	files, err := overlayFiles(repo, verif)
	if err != nil {
		return nil, err
	}
	ov, err := loadOverlay(files)
	if err != nil {
		return nil, err
	}
	pats := []string{".", "./backend/s3mem", "./backend/s3afero", "./backend/s3bolt", "./internal/goskipiter", "./internal/vsym"}
	for _, d := range []string{"vstub", "vharn"} {
		if ents, _ := os.ReadDir(filepath.Join(verif, "harness", d)); len(ents) > 0 {
			pats = append(pats, "./internal/"+d)
		}
	}
	P, err := LoadProgram(repo, ov, "vsymbolic", pats...)
	if err != nil {
		return nil, err
	}
	progCache = P
	progLoadS = time.Since(t0).Seconds()
	return P, nil
}

func loadRedirects(verif string) map[string]string {
	m := map[string]string{}
	b, err := os.ReadFile(filepath.Join(verif, "harness", "redirects.json"))
	if err != nil {
		return m
	}
	if err := json.Unmarshal(b, &m); err != nil {
		fmt.Fprintf(os.Stderr, "bad redirects.json: %v\n", err)
		os.Exit(2)
	}
	return m
}

func runOne(o runOpts) (*RunOutput, error) {
	P, err := getProgram(o.repo, o.verif)
	if err != nil {
		return nil, err
	}
	i := strings.LastIndex(o.harness, ":")
	pkgPath, fname := repoMod, o.harness
	if i >= 0 {
		pkgPath, fname = o.harness[:i], o.harness[i+1:]
		if pkgPath == "" {
			pkgPath = repoMod
		} else if !strings.HasPrefix(pkgPath, repoMod) {
			pkgPath = repoMod + "/" + pkgPath
		}
	}
	fn := P.FindFunc(pkgPath, fname)
	if fn == nil {
		return nil, fmt.Errorf("harness %s.%s not found", pkgPath, fname)
	}
	cfg := Config{
		SolverTimeoutMs: o.timeoutMs,
		ShardDepth:      o.shardDepth,
		MaxPaths:        o.maxPaths,
		MaxBackEdges:    o.maxBack,
		MaxSteps:        o.maxSteps,
		MaxSplit:        64,
		Known:           o.known,
		Verbose:         o.verbose,
		MaxSamples:      4,
		Params:          o.params,
		StopOnViolation: o.stopOnViol,
	}
	if o.deadline > 0 {
		cfg.Deadline = time.Now().Add(o.deadline)
	}
	t0 := time.Now()
	outs := runWorkers(P, fn, cfg, loadRedirects(o.verif), o.shards)
	ro := &RunOutput{Harness: o.harness, Params: o.params, Shards: o.shards, LoadS: progLoadS}
	var all []*Results
	funcs := map[string]bool{}
	stubs := map[string]bool{}
	for i, w := range outs {
		if w.Res != nil {
			all = append(all, w.Res)
		}
		ro.Queries += w.Queries
		ro.SolverS += w.SolverT.Seconds()
		ro.SolverUnk += w.Unknowns
		ro.SolverErr += w.Errors
		if w.LastError != "" {
			ro.SolverMsg = w.LastError
		}
		if w.Err != "" {
			ro.Errors = append(ro.Errors, fmt.Sprintf("shard %d: %s", i, w.Err))
		}
		for _, f := range w.Funcs {
			funcs[f] = true
		}
		for _, s := range w.Stubs {
			stubs[s] = true
		}
	}
	r := mergeResults(all)
	ro.Paths, ro.PathsNontr, ro.Forks = r.Paths, r.PathsNontriv, r.Forks
	ro.Obligations, ro.Discharged, ro.Trivial = r.Obligations, r.Discharged, r.Trivial
	ro.Violations = r.Violations
	ro.KnownSeen, ro.Reached, ro.Unsupported = r.KnownSeen, r.Reached, r.Unsupported
	ro.Inconcl, ro.InconcNotes, ro.UnwindHits = r.Inconclusive, r.InconcNotes, r.UnwindHits
	ro.AssumeFalse, ro.Outcomes, ro.Samples, ro.Truncated, ro.Steps = r.AssumeFalse, r.Outcomes, r.Samples, r.Truncated, r.Steps
	ro.WallS = time.Since(t0).Seconds()
	ro.ForkSites = r.ForkSites
	for f := range funcs {
		if strings.Contains(f, repoMod) && !strings.Contains(f, "/internal/vs") && !strings.Contains(f, "/internal/vharn") {
			ro.FuncsRepo = append(ro.FuncsRepo, strings.ReplaceAll(f, repoMod, "gofakes3"))
		} else {
			ro.FuncsOther++
		}
	}
	sort.Strings(ro.FuncsRepo)
	ro.Stubs = sortedKeys(stubs)
	return ro, nil
}

func cmdRun(args []string) {
	fs := flag.NewFlagSet("run", flag.ExitOnError)
	var o runOpts
	fs.StringVar(&o.repo, "repo", "/repo", "repository directory")
	fs.StringVar(&o.verif, "verif", "/verif", "verification directory")
	fs.StringVar(&o.harness, "harness", "", "[pkg:]Func")
	params := fs.String("params", "", "k=v,...")
	fs.IntVar(&o.shards, "shards", 1, "parallel workers")
	fs.IntVar(&o.shardDepth, "sharddepth", 3, "decisions used for sharding")
	fs.IntVar(&o.timeoutMs, "timeout", 10000, "solver timeout per query (ms)")
	fs.IntVar(&o.verbose, "v", 1, "verbosity")
	fs.IntVar(&o.maxPaths, "maxpaths", 0, "stop after this many paths per shard")
	fs.IntVar(&o.maxBack, "unwind", 4096, "per-frame back-edge limit")
	fs.Int64Var(&o.maxSteps, "maxsteps", 0, "per-shard step limit")
	known := fs.String("known", "", "known-findings.json")
	out := fs.String("json", "", "write result JSON here")
	fs.BoolVar(&o.stopOnViol, "stop", false, "stop at first violation")
	fs.Parse(args)
	o.params = parseParams(*params)
	if *known == "" {
		*known = filepath.Join(o.verif, "known-findings.json")
	}
	o.known = loadKnown(*known)
	if o.shards <= 0 {
		o.shards = runtime.NumCPU()
	}
	ro, err := runOne(o)
	if err != nil {
		fmt.Fprintln(os.Stderr, "error:", err)
		os.Exit(2)
	}
	printSummary(ro)
	if *out != "" {
		b, _ := json.MarshalIndent(ro, "", " ")
		os.WriteFile(*out, b, 0644)
	}
	if len(ro.Violations) > 0 {
		os.Exit(1)
	}
	if ro.Inconcl > 0 || len(ro.Unsupported) > 0 || ro.UnwindHits > 0 || len(ro.Errors) > 0 {
		os.Exit(3)
	}
}

func printSummary(ro *RunOutput) {
	fmt.Printf("harness %s params=%v shards=%d\n", ro.Harness, ro.Params, ro.Shards)
	fmt.Printf("  paths=%d (nontrivial %d) forks=%d steps=%d obligations=%d discharged=%d (trivial %d)\n", ro.Paths, ro.PathsNontr, ro.Forks, ro.Steps, ro.Obligations, ro.Discharged, ro.Trivial)
	fmt.Printf("  solver: %d queries %.2fs unknown=%d errors=%d; load %.1fs wall %.1fs\n", ro.Queries, ro.SolverS, ro.SolverUnk, ro.SolverErr, ro.LoadS, ro.WallS)
	fmt.Printf("  outcomes=%v\n", ro.Outcomes)
	fmt.Printf("  reached=%v\n", ro.Reached)
	if len(ro.ForkSites) > 0 {
		type kv struct {
			k string
			n int
		}
		var l []kv
		for k, n := range ro.ForkSites {
			l = append(l, kv{k, n})
		}
		sort.Slice(l, func(i, j int) bool { return l[i].n > l[j].n })
		for i, x := range l {
			if i >= 12 {
				break
			}
			fmt.Printf("  forksite %6d %s\n", x.n, x.k)
		}
	}
	if len(ro.KnownSeen) > 0 {
		fmt.Printf("  known findings seen=%v\n", ro.KnownSeen)
	}
	if len(ro.Unsupported) > 0 {
		fmt.Printf("  UNSUPPORTED=%v\n", ro.Unsupported)
	}
	if ro.Inconcl > 0 || len(ro.InconcNotes) > 0 {
		fmt.Printf("  INCONCLUSIVE=%d %v\n", ro.Inconcl, ro.InconcNotes)
	}
	if ro.UnwindHits > 0 {
		fmt.Printf("  UNWIND hits=%d\n", ro.UnwindHits)
	}
	if ro.SolverMsg != "" {
		fmt.Printf("  solver error: %s\n", ro.SolverMsg)
	}
	for _, e := range ro.Errors {
		fmt.Printf("  ERROR %s\n", e)
	}
	for _, v := range ro.Violations {
		fmt.Printf("  VIOLATION-CANDIDATE %s %s at %s: %s\n    choices=%v\n    model=%v\n", v.Kind, v.Label, v.Site, v.Msg, v.Choices, v.Model)
		if v.Stack != "" {
			fmt.Printf("%s", v.Stack)
		}
	}
}
