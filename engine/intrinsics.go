package main

// Engine-level intrinsics: vsym API, sync, atomic, time, bytealg, misc.

import (
	"crypto/md5"
	"fmt"
	"go/token"
	"go/types"
	"hash/fnv"
	"math"
	"strings"
)

const tokLSS = token.LSS

const vsymPkg = "github.com/johannesboyne/gofakes3/internal/vsym"

func (e *Engine) argStr(v Value) string {
	s := v.str()
	if s.b != nil {
		e.unsupported("symbolic string where a concrete name is required")
	}
	return s.s
}

func (e *Engine) freshVar(base string, w uint16) *Term {
	if e.ps.varCount == nil {
		e.ps.varCount = map[string]int{}
	}
	n := e.ps.varCount[base]
	e.ps.varCount[base] = n + 1
	e.trail = append(e.trail, trailEntry{fn: func() { e.ps.varCount[base] = n }})
	name := fmt.Sprintf("%s#%d", base, n)
	t := e.tt.Var(name, w)
	e.ps.vars = append(e.ps.vars, t)
	return t
}

func registerIntrinsics(e *Engine) {
	in := e.intrinsics
	v := func(name string) string { return vsymPkg + "." + name }

	in[v("Symbolic")] = func(e *Engine, a []Value, c *callCtx) Value { return boolV(true) }
	in[v("Byte")] = func(e *Engine, a []Value, c *callCtx) Value { return Value{T: e.freshVar(e.argStr(a[0]), 8)} }
	in[v("Bool")] = func(e *Engine, a []Value, c *callCtx) Value { return Value{T: e.freshVar(e.argStr(a[0]), 0)} }
	in[v("Int")] = func(e *Engine, a []Value, c *callCtx) Value { return Value{T: e.freshVar(e.argStr(a[0]), 64)} }
	in[v("Int64")] = in[v("Int")]
	in[v("Uint64")] = in[v("Int")]
	in[v("Int32")] = func(e *Engine, a []Value, c *callCtx) Value { return Value{T: e.freshVar(e.argStr(a[0]), 32)} }
	in[v("Bytes")] = func(e *Engine, a []Value, c *callCtx) Value {
		name := e.argStr(a[0])
		n := int(a[1].N)
		if a[1].T != nil {
			e.unsupported("vsym.Bytes with symbolic length")
		}
		arr := e.newArray(types.Typ[types.Uint8], n)
		for i := 0; i < n; i++ {
			arr.flat[i] = Value{T: e.freshVar(name, 8)}
		}
		return Value{O: &Slice{arr: arr, len: n, cap: n}}
	}
	in[v("String")] = func(e *Engine, a []Value, c *callCtx) Value {
		name := e.argStr(a[0])
		if a[1].T != nil {
			e.unsupported("vsym.String with symbolic length")
		}
		n := int(a[1].N)
		if n == 0 {
			return strV("")
		}
		b := make([]Value, n)
		for i := 0; i < n; i++ {
			b[i] = Value{T: e.freshVar(name, 8)}
		}
		return Value{O: &Str{b: b}}
	}
	in[v("Choice")] = func(e *Engine, a []Value, c *callCtx) Value {
		name := e.argStr(a[0])
		if a[1].T != nil {
			e.unsupported("vsym.Choice with symbolic bound")
		}
		n := int64(a[1].N)
		if n <= 1 {
			return intV(0)
		}
		t := e.freshVar(name, 64)
		x, ok := e.splitInt2("choice:"+name, Value{T: t}, scalarInfo{64, true, 2}, 0, n-1, true)
		if !ok {
			panic(&pathAbort{"choice-out-of-range"})
		}
		e.ps.choices = append(e.ps.choices, choiceRec{name, x})
		return intV(uint64(x))
	}
	in[v("Concrete")] = func(e *Engine, a []Value, c *callCtx) Value {
		if a[1].T != nil || a[2].T != nil {
			e.unsupported("vsym.Concrete with symbolic bounds")
		}
		x, ok := e.splitInt("concrete", a[0], scalarInfo{64, true, 2}, int64(a[1].N), int64(a[2].N))
		if !ok {
			panic(&pathAbort{"concrete-out-of-range"})
		}
		return intV(uint64(x))
	}
	in[v("Param")] = func(e *Engine, a []Value, c *callCtx) Value {
		name := e.argStr(a[0])
		if x, ok := e.cfg.Params[name]; ok {
			return intV(uint64(x))
		}
		return a[1]
	}
	in[v("Assume")] = func(e *Engine, a []Value, c *callCtx) Value {
		if a[0].T == nil {
			if a[0].N == 0 {
				e.res.AssumeFalse++
				panic(&pathAbort{"assume-false"})
			}
			return Value{}
		}
		if e.sv.CheckWith(a[0].T) == Unsat {
			e.res.AssumeFalse++
			panic(&pathAbort{"assume-false"})
		}
		e.assumeTerm(a[0].T)
		return Value{}
	}
	in[v("Assert")] = func(e *Engine, a []Value, c *callCtx) Value {
		label := e.argStr(a[1])
		e.obligation(label, "assert", e.posOf(c.site), "assertion "+label+" can fail", e.boolTerm(a[0]))
		return Value{}
	}
	in[v("Fail")] = func(e *Engine, a []Value, c *callCtx) Value {
		label := e.argStr(a[0])
		e.obligation(label, "assert", e.posOf(c.site), "failure "+label+" reachable", e.tt.tFalse)
		return Value{}
	}
	in[v("Reach")] = func(e *Engine, a []Value, c *callCtx) Value {
		if e.ownsPath() {
			e.res.Reached[e.argStr(a[0])]++
		}
		return Value{}
	}
	in[v("KnownRegion")] = func(e *Engine, a []Value, c *callCtx) Value {
		e.ps.regions = append(e.ps.regions, regionRec{id: e.argStr(a[0]), cond: e.boolTerm(a[1])})
		return Value{}
	}
	in[v("Observe")] = func(e *Engine, a []Value, c *callCtx) Value {
		e.ps.observes = append(e.ps.observes, obsRec{e.argStr(a[0]), a[1]})
		return Value{}
	}
	in[v("IsConcrete")] = func(e *Engine, a []Value, c *callCtx) Value {
		return boolV(e.isConcreteDeep(a[0]))
	}
	in[v("Comparable")] = func(e *Engine, a []Value, c *callCtx) Value {
		ifc, _ := a[0].O.(*Iface)
		if ifc == nil {
			return boolV(true)
		}
		return boolV(types.Comparable(ifc.t))
	}
	in[v("TypeName")] = func(e *Engine, a []Value, c *callCtx) Value {
		ifc, _ := a[0].O.(*Iface)
		if ifc == nil {
			return strV("<nil>")
		}
		return strV(types.TypeString(ifc.t, nil))
	}
	in[v("MD5")] = func(e *Engine, a []Value, c *callCtx) Value {
		s := a[0].slice()
		vals := make([]Value, s.len)
		for i := range vals {
			vals[i] = s.arr.flat[s.off+i]
		}
		return Value{O: &Tuple{e: e.hashUF("md5", vals, 16)}}
	}
	in[v("FNV128a")] = func(e *Engine, a []Value, c *callCtx) Value {
		s := a[0].slice()
		vals := make([]Value, s.len)
		for i := range vals {
			vals[i] = s.arr.flat[s.off+i]
		}
		return Value{O: &Tuple{e: e.hashUF("fnv128a", vals, 16)}}
	}
	in[v("KindOf")] = func(e *Engine, a []Value, c *callCtx) Value {
		ifc, _ := a[0].O.(*Iface)
		if ifc == nil {
			return intV(0)
		}
		si := e.scalar(ifc.t)
		switch si.kind {
		case 1:
			return intV(1)
		case 2:
			if si.signed {
				return intV(2)
			}
			return intV(3)
		case 4:
			return intV(4)
		}
		if st, ok := ifc.t.Underlying().(*types.Slice); ok && e.scalar(st.Elem()).w == 8 && e.scalar(st.Elem()).kind == 2 {
			return intV(5)
		}
		return intV(0)
	}
	in[v("IntOf")] = func(e *Engine, a []Value, c *callCtx) Value {
		ifc := a[0].O.(*Iface)
		si := e.scalar(ifc.t)
		return e.convert(ifc.v, ifc.t, types.Typ[types.Int64])
		_ = si
		return Value{}
	}
	in[v("UintOf")] = func(e *Engine, a []Value, c *callCtx) Value {
		ifc := a[0].O.(*Iface)
		return e.convert(ifc.v, ifc.t, types.Typ[types.Uint64])
	}
	in[v("StrOf")] = func(e *Engine, a []Value, c *callCtx) Value { return a[0].O.(*Iface).v }
	in[v("BytesOf")] = func(e *Engine, a []Value, c *callCtx) Value { return a[0].O.(*Iface).v }
	in[v("BoolOf")] = func(e *Engine, a []Value, c *callCtx) Value { return a[0].O.(*Iface).v }
	in[v("IsNilPtr")] = func(e *Engine, a []Value, c *callCtx) Value {
		ifc, _ := a[0].O.(*Iface)
		if ifc == nil {
			return boolV(true)
		}
		switch ifc.t.Underlying().(type) {
		case *types.Pointer, *types.Map, *types.Slice, *types.Signature, *types.Chan:
			return boolV(ifc.v.O == nil)
		}
		return boolV(false)
	}
	in[v("And")] = func(e *Engine, a []Value, c *callCtx) Value {
		return scalarOfTerm(e.tt.And(e.boolTerm(a[0]), e.boolTerm(a[1])))
	}
	in[v("Or")] = func(e *Engine, a []Value, c *callCtx) Value {
		return scalarOfTerm(e.tt.Or(e.boolTerm(a[0]), e.boolTerm(a[1])))
	}
	in[v("Implies")] = func(e *Engine, a []Value, c *callCtx) Value {
		return scalarOfTerm(e.tt.Or(e.tt.Not(e.boolTerm(a[0])), e.boolTerm(a[1])))
	}
	in[v("Ite")] = func(e *Engine, a []Value, c *callCtx) Value {
		return scalarOfTerm(e.tt.Ite(e.boolTerm(a[0]), e.term(a[1], 64), e.term(a[2], 64)))
	}
	in[v("IteByte")] = func(e *Engine, a []Value, c *callCtx) Value {
		return scalarOfTerm(e.tt.Ite(e.boolTerm(a[0]), e.term(a[1], 8), e.term(a[2], 8)))
	}
	in[v("StrEq")] = func(e *Engine, a []Value, c *callCtx) Value {
		return scalarOfTerm(e.strEq(a[0].str(), a[1].str()))
	}
	in[v("BlobPut")] = func(e *Engine, a []Value, c *callCtx) Value {
		ifc, _ := a[0].O.(*Iface)
		if ifc == nil {
			e.unsupported("BlobPut(nil)")
		}
		t := ifc.t
		val := ifc.v
		if pt, ok := t.Underlying().(*types.Pointer); ok {
			p, isPtr := val.O.(Ptr)
			if !isPtr {
				e.unsupported("BlobPut(nil pointer)")
			}
			t = pt.Elem()
			val = e.load(p)
		}
		id := len(e.blobs)
		e.blobs = append(e.blobs, blobEntry{t, e.deepCopy(val, t)})
		e.trail = append(e.trail, trailEntry{fn: func() { e.blobs = e.blobs[:id] }})
		tok := []byte{0, 'V', 'B', 'L', byte(id >> 16), byte(id >> 8), byte(id)}
		arr := e.newArray(types.Typ[types.Uint8], len(tok))
		for i, b := range tok {
			arr.flat[i] = intV(uint64(b))
		}
		return Value{O: &Slice{arr: arr, len: len(tok), cap: len(tok)}}
	}
	in[v("BlobGet")] = func(e *Engine, a []Value, c *callCtx) Value {
		s := a[0].slice()
		if s.len != 7 {
			return boolV(false)
		}
		var tok [7]byte
		for i := 0; i < 7; i++ {
			b := s.arr.flat[s.off+i]
			if b.T != nil {
				return boolV(false)
			}
			tok[i] = byte(b.N)
		}
		if tok[0] != 0 || tok[1] != 'V' || tok[2] != 'B' || tok[3] != 'L' {
			return boolV(false)
		}
		id := int(tok[4])<<16 | int(tok[5])<<8 | int(tok[6])
		if id >= len(e.blobs) {
			return boolV(false)
		}
		ent := e.blobs[id]
		ifc, _ := a[1].O.(*Iface)
		if ifc == nil {
			return boolV(false)
		}
		pt, ok := ifc.t.Underlying().(*types.Pointer)
		if !ok || !types.Identical(pt.Elem(), ent.t) {
			return boolV(false)
		}
		p, isPtr := ifc.v.O.(Ptr)
		if !isPtr {
			return boolV(false)
		}
		e.store(p, e.deepCopy(ent.v, ent.t))
		return boolV(true)
	}
	// ByteSlicesOf(ptr) returns every []byte reachable through struct fields of
	// *ptr (sharing their storage): what a decoder that sub-slices its input
	// hands out.
	in[v("ByteSlicesOf")] = func(e *Engine, a []Value, c *callCtx) Value {
		rt := c.sig.Results().At(0).Type().Underlying().(*types.Slice)
		var found []Value
		var walk func(v Value, t types.Type, depth int)
		walk = func(v Value, t types.Type, depth int) {
			if depth > 4 {
				return
			}
			switch u := t.Underlying().(type) {
			case *types.Slice:
				if b, ok := u.Elem().Underlying().(*types.Basic); ok && b.Kind() == types.Uint8 {
					if sl, _ := v.O.(*Slice); sl != nil && sl.len > 0 {
						found = append(found, v)
					}
				}
			case *types.Struct:
				if tp, _ := v.O.(*Tuple); tp != nil {
					for i := 0; i < u.NumFields(); i++ {
						walk(tp.e[i], u.Field(i).Type(), depth+1)
					}
				}
			}
		}
		if ifc, _ := a[0].O.(*Iface); ifc != nil {
			if pt, ok := ifc.t.Underlying().(*types.Pointer); ok {
				if p, isPtr := ifc.v.O.(Ptr); isPtr {
					walk(e.load(p), pt.Elem(), 0)
				}
			}
		}
		arr := e.newArray(rt.Elem(), len(found))
		for i, f := range found {
			e.arrSetFresh(arr, i, f)
		}
		return Value{O: &Slice{arr: arr, len: len(found), cap: len(found)}}
	}
	in[v("LenOf")] = func(e *Engine, a []Value, c *callCtx) Value {
		ifc, _ := a[0].O.(*Iface)
		if ifc == nil {
			return intV(0)
		}
		return intV(uint64(ifc.v.slice().len))
	}
	in[v("SwapElems")] = func(e *Engine, a []Value, c *callCtx) Value {
		ifc, _ := a[0].O.(*Iface)
		if ifc == nil || a[1].T != nil || a[2].T != nil {
			e.unsupported("SwapElems on nil or with symbolic index")
		}
		s := ifc.v.slice()
		i, j := int(a[1].N), int(a[2].N)
		x, y := e.arrGet(s.arr, s.off+i), e.arrGet(s.arr, s.off+j)
		e.arrSet(s.arr, s.off+i, y)
		e.arrSet(s.arr, s.off+j, x)
		return Value{}
	}
	in[v("Yield")] = func(e *Engine, a []Value, c *callCtx) Value {
		e.schedPoint("yield")
		return Value{}
	}
	in[v("Go")] = func(e *Engine, a []Value, c *callCtx) Value {
		e.spawn(a[0], nil)
		e.raceOn = true
		return Value{}
	}
	in[v("Join")] = func(e *Engine, a []Value, c *callCtx) Value {
		th := e.th
		allDone := true
		for _, o := range e.threads {
			if o != th && !o.done {
				allDone = false
			}
		}
		if !allDone {
			th.waitJoin = true
			next := e.pickThread("join")
			e.switchTo(next)
			panic(retrySignal{})
		}
		th.waitJoin = false
		for _, o := range e.threads {
			if o != th {
				th.vc = th.vc.join(o.vc)
			}
		}
		th.vc[th.id]++
		e.raceOn = false
		return Value{}
	}
	in[v("Logf")] = func(e *Engine, a []Value, c *callCtx) Value { return Value{} }

	// ---- sync ----
	lockState := func(a Value, path ...int) *Node {
		p, ok := a.O.(Ptr)
		if !ok {
			e.nilDeref()
		}
		n := p.n
		for _, i := range path {
			n = n.kids[i]
		}
		return n
	}
	in["(*sync.Mutex).Lock"] = func(e *Engine, a []Value, c *callCtx) Value {
		st := lockState(a[0], 0)
		e.schedPoint("Mutex.Lock")
		if st.v.N != 0 {
			if !e.multi() || int(st.v.N) == e.th.id+1 {
				e.lockFailure("self-deadlock: Lock of a mutex already held by this thread", c)
			}
			e.blockOn(st, 0, "Mutex.Lock")
		}
		e.th.blockedOn = nil
		e.setLeaf(st, intV(uint64(e.th.id+1)))
		e.ps.locksHeld++
		if vc, ok := e.race.locks[st]; ok {
			e.th.vc = e.th.vc.join(vc)
		}
		return Value{}
	}
	in["(*sync.Mutex).TryLock"] = func(e *Engine, a []Value, c *callCtx) Value {
		st := lockState(a[0], 0)
		if st.v.N != 0 {
			return boolV(false)
		}
		e.setLeaf(st, intV(uint64(e.th.id+1)))
		e.ps.locksHeld++
		if vc, ok := e.race.locks[st]; ok {
			e.th.vc = e.th.vc.join(vc)
		}
		return boolV(true)
	}
	in["(*sync.Mutex).Unlock"] = func(e *Engine, a []Value, c *callCtx) Value {
		st := lockState(a[0], 0)
		if st.v.N == 0 {
			e.goPanicStr("fatal error: sync: unlock of unlocked mutex")
			panic(goPanicSignal{})
		}
		e.setLockVC(st, e.th.vc)
		e.th.vc[e.th.id]++
		e.setLeaf(st, intV(0))
		e.ps.locksHeld--
		return Value{}
	}
	// RWMutex{w Mutex; writerSem, readerSem uint32; readerCount, readerWait atomic.Int32}
	in["(*sync.RWMutex).Lock"] = func(e *Engine, a []Value, c *callCtx) Value {
		rw := lockState(a[0])
		w := rw.kids[0].kids[0]
		rc := rwReaders(rw)
		e.schedPoint("RWMutex.Lock")
		if w.v.N != 0 || rc.v.N != 0 {
			if !e.multi() || int(w.v.N) == e.th.id+1 {
				e.lockFailure("self-deadlock: RWMutex.Lock while held", c)
			}
			e.blockOn(rw, 1, "RWMutex.Lock")
		}
		e.th.blockedOn = nil
		e.setLeaf(w, intV(uint64(e.th.id+1)))
		e.ps.locksHeld++
		if vc, ok := e.race.locks[rw]; ok {
			e.th.vc = e.th.vc.join(vc)
		}
		if vc, ok := e.race.locks[rc]; ok {
			e.th.vc = e.th.vc.join(vc)
		}
		return Value{}
	}
	in["(*sync.RWMutex).Unlock"] = func(e *Engine, a []Value, c *callCtx) Value {
		rw := lockState(a[0])
		w := rw.kids[0].kids[0]
		if w.v.N == 0 {
			e.goPanicStr("fatal error: sync: Unlock of unlocked RWMutex")
			panic(goPanicSignal{})
		}
		e.setLockVC(rw, e.th.vc)
		e.th.vc[e.th.id]++
		e.setLeaf(w, intV(0))
		e.ps.locksHeld--
		return Value{}
	}
	in["(*sync.RWMutex).RLock"] = func(e *Engine, a []Value, c *callCtx) Value {
		rw := lockState(a[0])
		w := rw.kids[0].kids[0]
		rc := rwReaders(rw)
		e.schedPoint("RWMutex.RLock")
		if w.v.N != 0 {
			if !e.multi() || int(w.v.N) == e.th.id+1 {
				e.lockFailure("self-deadlock: RWMutex.RLock while write-locked", c)
			}
			e.blockOn(rw, 2, "RWMutex.RLock")
		}
		e.th.blockedOn = nil
		e.setLeaf(rc, intV(rc.v.N+1))
		e.ps.locksHeld++
		if vc, ok := e.race.locks[rw]; ok {
			e.th.vc = e.th.vc.join(vc)
		}
		return Value{}
	}
	in["(*sync.RWMutex).RUnlock"] = func(e *Engine, a []Value, c *callCtx) Value {
		rw := lockState(a[0])
		rc := rwReaders(rw)
		if rc.v.N == 0 {
			e.goPanicStr("fatal error: sync: RUnlock of unlocked RWMutex")
			panic(goPanicSignal{})
		}
		e.setLockVC(rc, e.race.locks[rc].join(e.th.vc))
		e.th.vc[e.th.id]++
		e.setLeaf(rc, intV(rc.v.N-1))
		e.ps.locksHeld--
		return Value{}
	}
	in["(*sync.Once).Do"] = func(e *Engine, a []Value, c *callCtx) Value {
		// Once{_ noCopy; done atomic.Uint32; m Mutex}: find the 'done' field by name
		p, ok := a[0].O.(Ptr)
		if !ok {
			e.nilDeref()
		}
		st := p.n.typ.Underlying().(*types.Struct)
		var done *Node
		for i := 0; i < st.NumFields(); i++ {
			if st.Field(i).Name() == "done" {
				done = p.n.kids[i]
			}
		}
		for done.kind == nkStruct {
			done = done.kids[len(done.kids)-1]
		}
		if done.v.N != 0 {
			return Value{}
		}
		e.setLeaf(done, intV(1))
		e.invokeFromIntrinsic(a[1], nil)
		return Value{}
	}
	in["(*sync.Pool).Get"] = func(e *Engine, a []Value, c *callCtx) Value {
		// always allocate through New
		p, ok := a[0].O.(Ptr)
		if !ok {
			e.nilDeref()
		}
		st := p.n.typ.Underlying().(*types.Struct)
		for i := 0; i < st.NumFields(); i++ {
			if st.Field(i).Name() == "New" {
				nv := p.n.kids[i].v
				if nv.O == nil {
					return Value{}
				}
				e.invokeFromIntrinsicDst(nv, nil, c)
				return Value{}
			}
		}
		return Value{}
	}
	in["(*sync.Pool).Put"] = func(e *Engine, a []Value, c *callCtx) Value { return Value{} }
	in["(*sync.WaitGroup).Add"] = func(e *Engine, a []Value, c *callCtx) Value { return Value{} }
	in["(*sync.WaitGroup).Done"] = in["(*sync.WaitGroup).Add"]
	in["(*sync.WaitGroup).Wait"] = in["(*sync.WaitGroup).Add"]
	in["sync.runtime_registerPoolCleanup"] = func(e *Engine, a []Value, c *callCtx) Value { return Value{} }
	in["sync.runtime_notifyListCheck"] = in["sync.runtime_registerPoolCleanup"]
	in["sync.throw"] = func(e *Engine, a []Value, c *callCtx) Value {
		e.goPanicStr("fatal error: " + a[0].str().s)
		panic(goPanicSignal{})
	}
	in["sync.fatal"] = in["sync.throw"]

	// ---- sync/atomic ----
	for _, ty := range []string{"Int32", "Int64", "Uint32", "Uint64", "Uintptr"} {
		w := uint16(64)
		if strings.HasSuffix(ty, "32") {
			w = 32
		}
		ww := w
		in["sync/atomic.Load"+ty] = func(e *Engine, a []Value, c *callCtx) Value { return e.atomicLoad(a[0]) }
		in["sync/atomic.Store"+ty] = func(e *Engine, a []Value, c *callCtx) Value { e.atomicStore(a[0], a[1]); return Value{} }
		in["sync/atomic.Add"+ty] = func(e *Engine, a []Value, c *callCtx) Value {
			old := e.atomicLoad(a[0])
			nv := e.intBinop(token.ADD, old, a[1], scalarInfo{ww, false, 2}, scalarInfo{ww, false, 2})
			e.atomicStore(a[0], nv)
			return nv
		}
		in["sync/atomic.Swap"+ty] = func(e *Engine, a []Value, c *callCtx) Value {
			old := e.atomicLoad(a[0])
			e.atomicStore(a[0], a[1])
			return old
		}
		in["sync/atomic.CompareAndSwap"+ty] = func(e *Engine, a []Value, c *callCtx) Value {
			old := e.atomicLoad(a[0])
			eq := e.intBinop(token.EQL, old, a[1], scalarInfo{ww, false, 2}, scalarInfo{ww, false, 2})
			var ok bool
			if eq.T != nil {
				ok = e.branch(eq.T)
			} else {
				ok = eq.N != 0
			}
			if ok {
				e.atomicStore(a[0], a[2])
			}
			return boolV(ok)
		}
		in["sync/atomic.And"+ty] = func(e *Engine, a []Value, c *callCtx) Value {
			old := e.atomicLoad(a[0])
			e.atomicStore(a[0], e.intBinop(token.AND, old, a[1], scalarInfo{ww, false, 2}, scalarInfo{ww, false, 2}))
			return old
		}
		in["sync/atomic.Or"+ty] = func(e *Engine, a []Value, c *callCtx) Value {
			old := e.atomicLoad(a[0])
			e.atomicStore(a[0], e.intBinop(token.OR, old, a[1], scalarInfo{ww, false, 2}, scalarInfo{ww, false, 2}))
			return old
		}
	}
	// sync/atomic.Value: the stored interface value lives in the struct's only
	// field (the real implementation goes through unsafe pointers)
	valueField := func(e *Engine, recv Value) Value {
		p, ok := recv.O.(Ptr)
		if !ok {
			e.nilDeref()
		}
		if p.n.kind == nkStruct && len(p.n.kids) > 0 {
			return Value{O: Ptr{p.n.kids[0], -1}}
		}
		return recv
	}
	in["(*sync/atomic.Value).Load"] = func(e *Engine, a []Value, c *callCtx) Value {
		return e.atomicLoad(valueField(e, a[0]))
	}
	in["(*sync/atomic.Value).Store"] = func(e *Engine, a []Value, c *callCtx) Value {
		if a[1].O == nil {
			e.goPanicStr("sync/atomic: store of nil value into Value")
			panic(goPanicSignal{})
		}
		e.atomicStore(valueField(e, a[0]), a[1])
		return Value{}
	}
	in["(*sync/atomic.Value).Swap"] = func(e *Engine, a []Value, c *callCtx) Value {
		f := valueField(e, a[0])
		old := e.atomicLoad(f)
		e.atomicStore(f, a[1])
		return old
	}
	in["sync/atomic.LoadPointer"] = func(e *Engine, a []Value, c *callCtx) Value { return e.atomicLoad(a[0]) }
	in["sync/atomic.StorePointer"] = func(e *Engine, a []Value, c *callCtx) Value { e.atomicStore(a[0], a[1]); return Value{} }
	in["sync/atomic.SwapPointer"] = func(e *Engine, a []Value, c *callCtx) Value {
		old := e.atomicLoad(a[0])
		e.atomicStore(a[0], a[1])
		return old
	}
	in["sync/atomic.CompareAndSwapPointer"] = func(e *Engine, a []Value, c *callCtx) Value {
		old := e.atomicLoad(a[0])
		if ptrEq(old, a[1]) {
			e.atomicStore(a[0], a[2])
			return boolV(true)
		}
		return boolV(false)
	}
	in["sync/atomic.runtime_procPin"] = func(e *Engine, a []Value, c *callCtx) Value { return intV(0) }
	in["sync/atomic.runtime_procUnpin"] = func(e *Engine, a []Value, c *callCtx) Value { return Value{} }
	in["sync.runtime_procPin"] = in["sync/atomic.runtime_procPin"]
	in["sync.runtime_procUnpin"] = in["sync/atomic.runtime_procUnpin"]

	// ---- time ----
	in["time.now"] = func(e *Engine, a []Value, c *callCtx) Value {
		e.clock++
		e.trail = append(e.trail, trailEntry{fn: func() { e.clock-- }})
		sec := uint64(1700000000 + e.clock)
		return Value{O: &Tuple{e: []Value{intV(sec), intV(0), intV(uint64(e.clock) * 1000000000)}}}
	}
	in["time.runtimeNano"] = func(e *Engine, a []Value, c *callCtx) Value { return intV(uint64(e.clock) * 1000000000) }
	in["time.initLocal"] = func(e *Engine, a []Value, c *callCtx) Value { return Value{} }
	in["time.Sleep"] = func(e *Engine, a []Value, c *callCtx) Value { return Value{} }
	in["runtime.nanotime"] = in["time.runtimeNano"]

	// ---- internal/abi, runtime, misc ----
	in["internal/abi.NoEscape"] = func(e *Engine, a []Value, c *callCtx) Value { return a[0] }
	in["internal/abi.Escape"] = func(e *Engine, a []Value, c *callCtx) Value { return a[0] }
	in["runtime.KeepAlive"] = func(e *Engine, a []Value, c *callCtx) Value { return Value{} }
	in["runtime.GC"] = in["runtime.KeepAlive"]
	in["runtime.SetFinalizer"] = in["runtime.KeepAlive"]
	in["runtime.Gosched"] = in["runtime.KeepAlive"]
	in["internal/godebug.setUpdate"] = in["runtime.KeepAlive"]
	in["internal/godebug.registerMetric"] = in["runtime.KeepAlive"]
	in["internal/godebug.setNewIncNonDefault"] = in["runtime.KeepAlive"]
	in["(*internal/godebug.Setting).Value"] = func(e *Engine, a []Value, c *callCtx) Value { return strV("") }
	in["(*internal/godebug.Setting).IncNonDefault"] = in["runtime.KeepAlive"]
	in["internal/race.Acquire"] = in["runtime.KeepAlive"]
	in["internal/race.Release"] = in["runtime.KeepAlive"]
	in["internal/race.ReleaseMerge"] = in["runtime.KeepAlive"]
	in["internal/race.Disable"] = in["runtime.KeepAlive"]
	in["internal/race.Enable"] = in["runtime.KeepAlive"]
	in["internal/race.Read"] = in["runtime.KeepAlive"]
	in["internal/race.Write"] = in["runtime.KeepAlive"]
	in["internal/race.ReadRange"] = in["runtime.KeepAlive"]
	in["internal/race.WriteRange"] = in["runtime.KeepAlive"]
	in["math/rand.Float64"] = func(e *Engine, a []Value, c *callCtx) Value { return floatV(0.9, 64) }
	in["(*math/rand.Rand).Float64"] = in["math/rand.Float64"]
	in["math/rand.Int63"] = func(e *Engine, a []Value, c *callCtx) Value { return intV(4) }
	in["math/rand.NewSource"] = nil
	delete(in, "math/rand.NewSource")
	in["syscall.Getpagesize"] = func(e *Engine, a []Value, c *callCtx) Value { return intV(4096) }
	in["os.Getpagesize"] = in["syscall.Getpagesize"]
	in["internal/syscall/unix.fcntl"] = func(e *Engine, a []Value, c *callCtx) Value {
		return Value{O: &Tuple{e: []Value{intV(0), intV(0)}}}
	}
	in["internal/runtime/syscall.Syscall6"] = func(e *Engine, a []Value, c *callCtx) Value {
		return Value{O: &Tuple{e: []Value{intV(0), intV(0), intV(38)}}} // ENOSYS: no system calls in the model
	}
	in["syscall.runtime_entersyscall"] = func(e *Engine, a []Value, c *callCtx) Value { return Value{} }
	in["syscall.runtime_exitsyscall"] = in["syscall.runtime_entersyscall"]
	in["os.runtime_beforeExit"] = in["syscall.runtime_entersyscall"]
	in["os.checkClonePidfd"] = func(e *Engine, a []Value, c *callCtx) Value { return Value{} }
	in["os.Getpid"] = func(e *Engine, a []Value, c *callCtx) Value { return intV(4242) }
	in["syscall.Getpid"] = in["os.Getpid"]
	in["os.Getenv"] = func(e *Engine, a []Value, c *callCtx) Value { return strV("") }
	in["os.runtime_args"] = func(e *Engine, a []Value, c *callCtx) Value { return Value{} }
	in["syscall.runtime_envs"] = func(e *Engine, a []Value, c *callCtx) Value { return Value{} }
	in["syscall.Getenv"] = func(e *Engine, a []Value, c *callCtx) Value {
		return Value{O: &Tuple{e: []Value{strV(""), boolV(false)}}}
	}

	// ---- internal/bytealg ----
	bytesOf := func(v Value) []Value {
		if s, ok := v.O.(*Str); ok {
			return s.bytes()
		}
		s := v.slice()
		if s.len == 0 {
			return nil
		}
		return s.arr.flat[s.off : s.off+s.len]
	}
	indexByte := func(e *Engine, a []Value, c *callCtx) Value {
		b := bytesOf(a[0])
		for i := range b {
			eq := e.tt.Eq(e.term(b[i], 8), e.term(a[1], 8))
			if e.branch(eq) {
				return intV(uint64(i))
			}
		}
		return intV(^uint64(0))
	}
	in["internal/bytealg.IndexByte"] = indexByte
	in["internal/bytealg.IndexByteString"] = indexByte
	in["internal/bytealg.LastIndexByte"] = func(e *Engine, a []Value, c *callCtx) Value {
		b := bytesOf(a[0])
		for i := len(b) - 1; i >= 0; i-- {
			if e.branch(e.tt.Eq(e.term(b[i], 8), e.term(a[1], 8))) {
				return intV(uint64(i))
			}
		}
		return intV(^uint64(0))
	}
	in["internal/bytealg.LastIndexByteString"] = in["internal/bytealg.LastIndexByte"]
	count := func(e *Engine, a []Value, c *callCtx) Value {
		b := bytesOf(a[0])
		n := 0
		for i := range b {
			if e.branch(e.tt.Eq(e.term(b[i], 8), e.term(a[1], 8))) {
				n++
			}
		}
		return intV(uint64(n))
	}
	in["internal/bytealg.Count"] = count
	in["internal/bytealg.CountString"] = count
	index := func(e *Engine, a []Value, c *callCtx) Value {
		h, n := bytesOf(a[0]), bytesOf(a[1])
		for i := 0; i+len(n) <= len(h); i++ {
			eq := e.tt.tTrue
			for j := range n {
				eq = e.tt.And(eq, e.tt.Eq(e.term(h[i+j], 8), e.term(n[j], 8)))
				if eq.IsFalse() {
					break
				}
			}
			if e.branch(eq) {
				return intV(uint64(i))
			}
		}
		return intV(^uint64(0))
	}
	in["internal/bytealg.Index"] = index
	in["internal/bytealg.IndexString"] = index
	in["internal/bytealg.Equal"] = func(e *Engine, a []Value, c *callCtx) Value {
		x, y := bytesOf(a[0]), bytesOf(a[1])
		return scalarOfTerm(e.strEq(&Str{b: x}, &Str{b: y}))
	}
	cmp := func(e *Engine, a []Value, c *callCtx) Value {
		x, y := normStr(bytesOf(a[0])), normStr(bytesOf(a[1]))
		lt := e.strLess(x, y, false)
		if e.branch(lt) {
			return intV(^uint64(0))
		}
		if e.branch(e.strEq(x, y)) {
			return intV(0)
		}
		return intV(1)
	}
	in["internal/bytealg.Compare"] = cmp
	in["internal/bytealg.CompareString"] = cmp
	in["runtime.cmpstring"] = cmp
	in["strings.Compare"] = cmp
	in["internal/bytealg.MakeNoZero"] = func(e *Engine, a []Value, c *callCtx) Value {
		return e.makeSlice(types.NewSlice(types.Typ[types.Uint8]), a[0], a[0])
	}
	in["internal/bytealg.init"] = func(e *Engine, a []Value, c *callCtx) Value { return Value{} }
	in["internal/stringslite.Index"] = index
	in["internal/stringslite.IndexByte"] = indexByte

	// ---- crypto/md5 & hash/fnv via uninterpreted functions are handled by Go stubs that call vsym.MD5 ----

	// ---- math ----
	in["math.Float64bits"] = func(e *Engine, a []Value, c *callCtx) Value { return a[0] }
	in["math.Float64frombits"] = func(e *Engine, a []Value, c *callCtx) Value { return a[0] }
	in["math.Float32bits"] = func(e *Engine, a []Value, c *callCtx) Value { return a[0] }
	in["math.Float32frombits"] = func(e *Engine, a []Value, c *callCtx) Value { return a[0] }

	for name, f := range map[string]func(float64) float64{"Log": math.Log, "Exp": math.Exp, "Floor": math.Floor, "Ceil": math.Ceil,
		"Trunc": math.Trunc, "Sqrt": math.Sqrt, "Log2": math.Log2, "Log10": math.Log10, "Exp2": math.Exp2} {
		ff := f
		fn := func(e *Engine, a []Value, c *callCtx) Value {
			if a[0].T != nil {
				e.unsupported("symbolic float in math function")
			}
			return floatV(ff(floatOf(a[0], 64)), 64)
		}
		in["math.arch"+name] = fn
		in["math."+name] = fn
		in["math."+strings.ToLower(name)] = fn
	}

	// ---- reflect (only type identity) ----
	in["reflect.TypeOf"] = func(e *Engine, a []Value, c *callCtx) Value {
		ifc, _ := a[0].O.(*Iface)
		if ifc == nil {
			return Value{}
		}
		n, _ := e.rtypes.At(ifc.t).(*Node)
		rt := c.sig.Results().At(0).Type() // reflect.Type
		_ = rt
		rtypePkg := e.P.byPath["reflect"]
		rtypeT := rtypePkg.Type("rtype").Type()
		if n == nil {
			save := e.epoch
			e.epoch = 0
			n = e.newNode(rtypeT)
			e.epoch = save
			e.rtypes.Set(ifc.t, n)
		}
		return Value{O: &Iface{t: types.NewPointer(rtypeT), v: Value{O: Ptr{n, -1}}}}
	}

	// ---- unique (netip zones) ----
	in["unique.Make"] = func(e *Engine, a []Value, c *callCtx) Value {
		var sb strings.Builder
		key := ""
		if e.keyString(a[0], nil, &sb) {
			key = c.fn.String() + "|" + sb.String()
		}
		if e.uniq == nil {
			e.uniq = map[string]*Node{}
		}
		var n *Node
		if key != "" {
			n = e.uniq[key]
		}
		if n == nil {
			// Handle[T]{value *T}
			ht := c.sig.Results().At(0).Type()
			pt := ht.Underlying().(*types.Struct).Field(0).Type().(*types.Pointer)
			save := e.epoch
			e.epoch = 0
			n = e.newNode(pt.Elem())
			e.epoch = save
			e.storeNode(n, a[0])
			if key != "" {
				e.uniq[key] = n
			}
		}
		return Value{O: &Tuple{e: []Value{{O: Ptr{n, -1}}}}}
	}
}

func (e *Engine) lockFailure(msg string, c *callCtx) {
	e.pathFailure("deadlock", "lock", e.posOf(c.site), msg)
	panic(&pathAbort{"deadlock"})
}

// invokeFromIntrinsic calls an interpreted closure from within an intrinsic
// (the intrinsic's own result is dropped).
func (e *Engine) invokeFromIntrinsic(callee Value, args []Value) {
	e.invoke(e.th, callee, args, -1, false, nil)
}

// invokeFromIntrinsicDst forwards the callee's result to the intrinsic's call site.
func (e *Engine) invokeFromIntrinsicDst(callee Value, args []Value, c *callCtx) {
	dst := -1
	if v, ok := c.site.(ssa_Value); ok {
		_ = v
	}
	dst = e.curDst
	e.invoke(e.th, callee, args, dst, false, nil)
}

type ssa_Value interface{ Name() string }

func (e *Engine) isConcreteDeep(v Value) bool {
	if v.T != nil {
		return false
	}
	switch o := v.O.(type) {
	case *Str:
		return o.b == nil
	case *Slice:
		for i := 0; i < o.len; i++ {
			if !e.isConcreteDeep(e.arrGet(o.arr, o.off+i)) {
				return false
			}
		}
	case *Tuple:
		for _, x := range o.e {
			if !e.isConcreteDeep(x) {
				return false
			}
		}
	case *Iface:
		return e.isConcreteDeep(o.v)
	}
	return true
}

// hashUF models a hash function of a byte sequence: real digest for concrete
// input, uninterpreted function of the bytes otherwise.
func (e *Engine) hashUF(kind string, in []Value, outBytes int) []Value {
	allc := true
	for _, b := range in {
		if b.T != nil {
			allc = false
			break
		}
	}
	out := make([]Value, outBytes)
	if allc {
		buf := make([]byte, len(in))
		for i, b := range in {
			buf[i] = byte(b.N)
		}
		var sum []byte
		switch kind {
		case "md5":
			s := md5.Sum(buf)
			sum = s[:]
		case "fnv128a":
			h := fnv.New128a()
			h.Write(buf)
			sum = h.Sum(nil)
		}
		for i := range out {
			out[i] = intV(uint64(sum[i]))
		}
		if len(in) > 0 && len(in) <= 8 {
			// remember the application so that a later symbolic application of
			// the same length agrees with it (and, for FNV, differs elsewhere)
			name := fmt.Sprintf("%s_%d", kind, len(in))
			var av uint64
			for _, b := range buf {
				av = av<<8 | uint64(b)
			}
			arg := e.tt.Const(av, uint16(8*len(in)))
			var res *Term
			for i := 0; i < outBytes; i += 8 {
				var w uint64
				for j := i; j < i+8; j++ {
					w = w<<8 | uint64(sum[j])
				}
				c := e.tt.Const(w, 64)
				if res == nil {
					res = c
				} else {
					res = e.tt.Concat(res, c)
				}
			}
			e.relateUF(kind, name, arg, res)
		}
		return out
	}
	var arg *Term
	for _, b := range in {
		t := e.term(b, 8)
		if arg == nil {
			arg = t
		} else {
			arg = e.tt.Concat(arg, t)
		}
	}
	name := fmt.Sprintf("%s_%d", kind, len(in))
	res := e.tt.UF(name, arg, uint16(outBytes*8))
	e.relateUF(kind, name, arg, res)
	for i := range out {
		hi := uint16((outBytes-i)*8 - 1)
		out[i] = Value{T: e.tt.Extract(res, hi, hi-7)}
	}
	return out
}

// relateUF records a hash application and ties it to the earlier ones of the
// same length: an application on a concrete argument is the real digest, so a
// symbolic application must agree with it when the arguments are equal; and
// FNV-128a is assumed collision-free among the (few, short) keys of one run:
// distinct arguments give distinct hashes.
func (e *Engine) relateUF(kind, name string, arg, res *Term) {
	apps := e.ps.ufApps[name]
	for _, p := range apps {
		if p[0] == arg {
			return
		}
	}
	for _, prev := range apps {
		if prev[0].IsConst() && arg.IsConst() {
			continue
		}
		if prev[0].IsConst() || arg.IsConst() {
			e.assumeTerm(e.tt.Or(e.tt.Not(e.tt.Eq(prev[0], arg)), e.tt.Eq(prev[1], res)))
		}
		if kind == "fnv128a" {
			e.assumeTerm(e.tt.Or(e.tt.Eq(prev[0], arg), e.tt.Not(e.tt.Eq(prev[1], res))))
		}
	}
	old := apps
	e.ps.ufApps[name] = append(append([][2]*Term(nil), apps...), [2]*Term{arg, res})
	e.trail = append(e.trail, trailEntry{fn: func() { e.ps.ufApps[name] = old }})
}

type blobEntry struct {
	t types.Type
	v Value
}

// deepCopy copies a value so that it shares no mutable storage with v.
func (e *Engine) deepCopy(v Value, t types.Type) Value {
	switch u := t.Underlying().(type) {
	case *types.Slice:
		s, _ := v.O.(*Slice)
		if s == nil {
			return Value{}
		}
		arr := e.newArray(u.Elem(), s.len)
		for i := 0; i < s.len; i++ {
			e.arrSetFresh(arr, i, e.deepCopy(e.arrGet(s.arr, s.off+i), u.Elem()))
		}
		return Value{O: &Slice{arr: arr, len: s.len, cap: s.len}}
	case *types.Map:
		m, _ := v.O.(*MapObj)
		if m == nil {
			return Value{}
		}
		nm := e.newMap(u.Key(), u.Elem())
		nd := &MapData{}
		for i := range m.d.keys {
			nd.keys = append(nd.keys, e.deepCopy(m.d.keys[i], u.Key()))
			nd.vals = append(nd.vals, e.deepCopy(m.d.vals[i], u.Elem()))
		}
		e.reindex(nm, nd)
		nm.d = nd
		return Value{O: nm}
	case *types.Pointer:
		p, ok := v.O.(Ptr)
		if !ok {
			return Value{}
		}
		if p.idx >= 0 {
			return v
		}
		n := e.newNode(u.Elem())
		e.storeNode(n, e.deepCopy(e.loadNode(p.n), u.Elem()))
		return Value{O: Ptr{n, -1}}
	case *types.Struct:
		tp, _ := v.O.(*Tuple)
		if tp == nil {
			return v
		}
		nt := &Tuple{e: make([]Value, len(tp.e))}
		for i := range tp.e {
			nt.e[i] = e.deepCopy(tp.e[i], u.Field(i).Type())
		}
		return Value{O: nt}
	case *types.Array:
		tp, _ := v.O.(*Tuple)
		if tp == nil {
			return v
		}
		nt := &Tuple{e: make([]Value, len(tp.e))}
		for i := range tp.e {
			nt.e[i] = e.deepCopy(tp.e[i], u.Elem())
		}
		return Value{O: nt}
	case *types.Interface:
		ifc, _ := v.O.(*Iface)
		if ifc == nil {
			return v
		}
		return Value{O: &Iface{t: ifc.t, v: e.deepCopy(ifc.v, ifc.t)}}
	}
	return v
}

func (e *Engine) atomicLoad(addr Value) Value {
	e.atomicSync(addr)
	return e.rawLoad(addr)
}

func (e *Engine) atomicStore(addr, v Value) {
	e.atomicSync(addr)
	e.rawStore(addr, v)
}
