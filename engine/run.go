package main

// Package initialisation, nested runs, worker driver.

import (
	"fmt"
	"os"
	"strings"
	"sync"
	"time"

	"golang.org/x/tools/go/ssa"
)

// runNested runs fn(args) to completion on a temporary thread. Symbolic
// decisions are not allowed inside. Returns false if the run aborted.
func (e *Engine) runNested(fn *ssa.Function, args []Value) (res Value, ok bool) {
	saveTh, saveThreads := e.th, e.threads
	saveMark, savePS, saveTop, saveFr, saveSTh := e.stepMark, e.stepPS, e.stepTop, e.stepFr, e.stepTh
	savePre, savePreUsed, saveSeq, savePend := e.pre, e.preUsed, e.decSeq, e.pendingAdv
	saveDone, saveOutcome := e.done, e.outcome
	saveRace := e.raceOn
	e.raceOn = false // a nested run (package initialisation) is single-threaded
	th := &Thread{id: -1}
	e.th = th
	e.threads = []*Thread{th}
	e.pre, e.preUsed, e.decSeq, e.pendingAdv = nil, 0, 0, nil
	e.done, e.outcome = false, ""
	defer func() {
		r := recover()
		if r != nil {
			if _, isAbort := r.(*pathAbort); !isAbort {
				fmt.Fprintf(os.Stderr, "PANIC in nested run: %v\n  at instr: %v\n%s", r, e.curInstr(), e.stackTrace(e.th))
			}
		}
		e.th, e.threads = saveTh, saveThreads
		e.raceOn = saveRace
		e.stepMark, e.stepPS, e.stepTop, e.stepFr, e.stepTh = saveMark, savePS, saveTop, saveFr, saveSTh
		e.pre, e.preUsed, e.decSeq, e.pendingAdv = savePre, savePreUsed, saveSeq, savePend
		out := e.outcome
		e.done, e.outcome = saveDone, saveOutcome
		if r != nil {
			if pa, isAbort := r.(*pathAbort); isAbort {
				fmt.Fprintf(os.Stderr, "note: nested run of %s aborted: %s\n", fn, pa.why)
				ok = false
				return
			}
			if e.inRoot {
				fmt.Fprintf(os.Stderr, "note: nested run of %s aborted by engine panic (initialisation left partial)\n", fn)
				ok = false
				return
			}
			panic(r)
		}
		if out != "ok" && out != "" {
			fmt.Fprintf(os.Stderr, "note: nested run of %s ended with %s (%s)\n", fn, out, e.valueBrief(th.panicVal))
			ok = false
		}
	}()
	e.pushFrame(th, fn, args, nil, -1, false)
	for !th.done && !e.done {
		e.step()
	}
	return th.result, true
}

func (e *Engine) ensureInit(pkg *ssa.Package) {
	if pkg == nil || e.initDone[pkg] {
		return
	}
	e.initDone[pkg] = true
	initFn := pkg.Func("init")
	if initFn == nil || len(initFn.Blocks) == 0 {
		return
	}
	saveEpoch, saveRoot, saveInit := e.epoch, e.inRoot, e.inInitOf
	e.epoch, e.inRoot, e.inInitOf = 0, true, pkg
	t0 := time.Now()
	if _, ok := e.runNested(initFn, nil); !ok {
		// a partially initialised package silently changes semantics: report it
		e.res.Unsupported["package initialisation incomplete: "+pkg.Pkg.Path()]++
	}
	if e.cfg.Verbose > 2 {
		fmt.Fprintf(os.Stderr, "init %s: %v\n", pkg.Pkg.Path(), time.Since(t0))
	}
	e.epoch, e.inRoot, e.inInitOf = saveEpoch, saveRoot, saveInit
}

// RunHarness explores harness function fn exhaustively.
func (e *Engine) RunHarness(fn *ssa.Function) {
	e.ensureInit(fn.Pkg)
	th := &Thread{id: 0}
	th.vc[0] = 1
	e.th = th
	e.threads = []*Thread{th}
	e.epoch = 1
	e.pushFrame(th, fn, nil, nil, -1, false)
	e.explore()
	e.res.Steps = e.stepCount
}

type WorkerOut struct {
	Res       *Results
	Queries   int
	SolverT   time.Duration
	Unknowns  int
	Errors    int
	LastError string
	Funcs     []string
	Stubs     []string
	Err       string
	Wall      time.Duration
}

func runWorkers(P *Program, fn *ssa.Function, cfg Config, redirects map[string]string, n int) []*WorkerOut {
	outs := make([]*WorkerOut, n)
	var wg sync.WaitGroup
	if n > 1 && os.Getenv("GOSYM_STATIC_SHARDS") == "" {
		cfg.Claims = &sync.Map{}
	}
	for i := 0; i < n; i++ {
		wg.Add(1)
		go func(i int) {
			defer wg.Done()
			out := &WorkerOut{}
			outs[i] = out
			c := cfg
			c.Shard, c.NShards = i, n
			t0 := time.Now()
			defer func() {
				out.Wall = time.Since(t0)
				if r := recover(); r != nil {
					out.Err = fmt.Sprintf("engine panic: %v", r)
				}
			}()
			e, err := NewEngine(P, c)
			if err != nil {
				out.Err = err.Error()
				return
			}
			defer e.sv.Close()
			out.Res = e.res
			if err := e.setRedirects(redirects); err != nil {
				out.Err = err.Error()
				return
			}
			e.RunHarness(fn)
			out.Queries = e.sv.Queries
			out.SolverT = e.sv.Time
			out.Unknowns = e.sv.Unknowns
			out.Errors = e.sv.Errors
			out.LastError = e.sv.LastError
			for f := range e.funcsSeen {
				out.Funcs = append(out.Funcs, f.String())
			}
			out.Stubs = sortedKeys(e.stubsHit)
		}(i)
	}
	wg.Wait()
	return outs
}

func (e *Engine) setRedirects(m map[string]string) error {
	for from, to := range m {
		i := strings.LastIndex(to, ".")
		if i < 0 {
			return fmt.Errorf("bad redirect target %q", to)
		}
		pkg := to[:i]
		if !strings.HasPrefix(pkg, repoMod) {
			pkg = repoMod + "/" + pkg
		}
		fn := e.P.FindFunc(pkg, to[i+1:])
		if fn == nil {
			return fmt.Errorf("redirect target %q not found", to)
		}
		e.redirects[from] = fn
		e.resolved = map[*ssa.Function]*calleeRes{}
	}
	return nil
}
