package main

// Binary operators, conversions, equality.

import (
	"fmt"
	"go/token"
	"go/types"
	"math"
	"unicode/utf8"

	"golang.org/x/tools/go/ssa"
)

func decodeRune(b []byte) (rune, int) {
	r, n := utf8.DecodeRune(b)
	if n == 0 {
		return utf8.RuneError, 1
	}
	return r, n
}

func floatOf(v Value, w uint16) float64 {
	if w == 32 {
		return float64(math.Float32frombits(uint32(v.N)))
	}
	return math.Float64frombits(v.N)
}

func floatV(f float64, w uint16) Value {
	if w == 32 {
		return Value{N: uint64(math.Float32bits(float32(f)))}
	}
	return Value{N: math.Float64bits(f)}
}

func (e *Engine) boolTerm(v Value) *Term {
	if v.T != nil {
		return v.T
	}
	return e.tt.Bool(v.N != 0)
}

func (e *Engine) binop(op token.Token, x, y Value, xt, yt types.Type, ins ssa.Instruction) Value {
	si := e.scalar(xt)
	switch si.kind {
	case 2:
		return e.intBinop(op, x, y, si, e.scalar(yt))
	case 1:
		switch op {
		case token.EQL:
			return scalarOfTerm(e.tt.Eq(e.boolTerm(x), e.boolTerm(y)))
		case token.NEQ:
			return scalarOfTerm(e.tt.Not(e.tt.Eq(e.boolTerm(x), e.boolTerm(y))))
		case token.AND, token.LAND:
			return scalarOfTerm(e.tt.And(e.boolTerm(x), e.boolTerm(y)))
		case token.OR, token.LOR:
			return scalarOfTerm(e.tt.Or(e.boolTerm(x), e.boolTerm(y)))
		}
	case 3:
		if x.T != nil || y.T != nil {
			e.unsupported("symbolic float")
		}
		a, b := floatOf(x, si.w), floatOf(y, si.w)
		switch op {
		case token.ADD:
			return floatV(a+b, si.w)
		case token.SUB:
			return floatV(a-b, si.w)
		case token.MUL:
			return floatV(a*b, si.w)
		case token.QUO:
			return floatV(a/b, si.w)
		case token.EQL:
			return boolV(a == b)
		case token.NEQ:
			return boolV(a != b)
		case token.LSS:
			return boolV(a < b)
		case token.LEQ:
			return boolV(a <= b)
		case token.GTR:
			return boolV(a > b)
		case token.GEQ:
			return boolV(a >= b)
		}
	case 4:
		a, b := x.str(), y.str()
		switch op {
		case token.ADD:
			return Value{O: concatStr(a, b)}
		case token.EQL:
			return scalarOfTerm(e.strEq(a, b))
		case token.NEQ:
			return scalarOfTerm(e.tt.Not(e.strEq(a, b)))
		case token.LSS:
			return scalarOfTerm(e.strLess(a, b, false))
		case token.LEQ:
			return scalarOfTerm(e.strLess(a, b, true))
		case token.GTR:
			return scalarOfTerm(e.strLess(b, a, false))
		case token.GEQ:
			return scalarOfTerm(e.strLess(b, a, true))
		}
	default:
		switch op {
		case token.EQL:
			return scalarOfTerm(e.valEq(x, y, xt))
		case token.NEQ:
			return scalarOfTerm(e.tt.Not(e.valEq(x, y, xt)))
		}
	}
	e.unsupported(fmt.Sprintf("binop %s on %s", op, xt))
	return Value{}
}

func (e *Engine) intBinop(op token.Token, x, y Value, si, ysi scalarInfo) Value {
	w := si.w
	m := mask(w)
	if x.T == nil && y.T == nil {
		a, b := x.N, y.N
		sa, sb := sext64(a, w), sext64(b, w)
		switch op {
		case token.ADD:
			return Value{N: (a + b) & m}
		case token.SUB:
			return Value{N: (a - b) & m}
		case token.MUL:
			return Value{N: (a * b) & m}
		case token.QUO:
			if b == 0 {
				e.goPanicStr("runtime error: integer divide by zero")
				panic(goPanicSignal{})
			}
			if si.signed {
				if sb == -1 {
					return Value{N: uint64(-sa) & m}
				}
				return Value{N: uint64(sa/sb) & m}
			}
			return Value{N: a / b}
		case token.REM:
			if b == 0 {
				e.goPanicStr("runtime error: integer divide by zero")
				panic(goPanicSignal{})
			}
			if si.signed {
				if sb == -1 {
					return Value{N: 0}
				}
				return Value{N: uint64(sa%sb) & m}
			}
			return Value{N: a % b}
		case token.AND:
			return Value{N: a & b}
		case token.OR:
			return Value{N: a | b}
		case token.XOR:
			return Value{N: a ^ b}
		case token.AND_NOT:
			return Value{N: a &^ b}
		case token.SHL:
			sh := b
			if ysi.signed && sext64(b, ysi.w) < 0 {
				e.goPanicStr("runtime error: negative shift amount")
				panic(goPanicSignal{})
			}
			if sh >= uint64(w) {
				return Value{N: 0}
			}
			return Value{N: (a << sh) & m}
		case token.SHR:
			sh := b
			if ysi.signed && sext64(b, ysi.w) < 0 {
				e.goPanicStr("runtime error: negative shift amount")
				panic(goPanicSignal{})
			}
			if si.signed {
				if sh >= uint64(w) {
					sh = uint64(w) - 1
				}
				return Value{N: uint64(sa>>sh) & m}
			}
			if sh >= uint64(w) {
				return Value{N: 0}
			}
			return Value{N: a >> sh}
		case token.EQL:
			return boolV(a == b)
		case token.NEQ:
			return boolV(a != b)
		case token.LSS:
			if si.signed {
				return boolV(sa < sb)
			}
			return boolV(a < b)
		case token.LEQ:
			if si.signed {
				return boolV(sa <= sb)
			}
			return boolV(a <= b)
		case token.GTR:
			if si.signed {
				return boolV(sa > sb)
			}
			return boolV(a > b)
		case token.GEQ:
			if si.signed {
				return boolV(sa >= sb)
			}
			return boolV(a >= b)
		}
		e.unsupported("int binop " + op.String())
	}
	tt := e.tt
	a := e.term(x, w)
	var b *Term
	if op == token.SHL || op == token.SHR {
		// shift count has its own type
		yb := e.term(y, ysi.w)
		if ysi.signed {
			neg := tt.Slt(yb, tt.Const(0, ysi.w))
			if !neg.IsFalse() {
				if e.branch(neg) {
					e.goPanicStr("runtime error: negative shift amount")
					panic(goPanicSignal{})
				}
			}
		}
		// saturate to width
		if ysi.w > w {
			big := tt.Ule(tt.Const(uint64(w), ysi.w), yb)
			b = tt.Ite(big, tt.Const(uint64(w), w), tt.Extract(yb, w-1, 0))
		} else {
			b = tt.Zext(yb, w)
		}
		switch op {
		case token.SHL:
			return scalarOfTerm(tt.bin(OpShl, a, b))
		default:
			if si.signed {
				return scalarOfTerm(tt.bin(OpAshr, a, b))
			}
			return scalarOfTerm(tt.bin(OpLshr, a, b))
		}
	}
	b = e.term(y, w)
	switch op {
	case token.ADD:
		return scalarOfTerm(tt.Add(a, b))
	case token.SUB:
		return scalarOfTerm(tt.Sub(a, b))
	case token.MUL:
		return scalarOfTerm(tt.Mul(a, b))
	case token.QUO, token.REM:
		z := tt.Eq(b, tt.Const(0, w))
		if !z.IsFalse() {
			if e.branch(z) {
				e.goPanicStr("runtime error: integer divide by zero")
				panic(goPanicSignal{})
			}
		}
		if op == token.QUO {
			if si.signed {
				return scalarOfTerm(tt.bin(OpSDiv, a, b))
			}
			return scalarOfTerm(tt.bin(OpUDiv, a, b))
		}
		if si.signed {
			return scalarOfTerm(tt.bin(OpSRem, a, b))
		}
		return scalarOfTerm(tt.bin(OpURem, a, b))
	case token.AND:
		return scalarOfTerm(tt.BAnd(a, b))
	case token.OR:
		return scalarOfTerm(tt.BOr(a, b))
	case token.XOR:
		return scalarOfTerm(tt.BXor(a, b))
	case token.AND_NOT:
		return scalarOfTerm(tt.BAnd(a, tt.BNot(b)))
	case token.EQL:
		return scalarOfTerm(tt.Eq(a, b))
	case token.NEQ:
		return scalarOfTerm(tt.Not(tt.Eq(a, b)))
	case token.LSS:
		if si.signed {
			return scalarOfTerm(tt.Slt(a, b))
		}
		return scalarOfTerm(tt.Ult(a, b))
	case token.LEQ:
		if si.signed {
			return scalarOfTerm(tt.Sle(a, b))
		}
		return scalarOfTerm(tt.Ule(a, b))
	case token.GTR:
		if si.signed {
			return scalarOfTerm(tt.Slt(b, a))
		}
		return scalarOfTerm(tt.Ult(b, a))
	case token.GEQ:
		if si.signed {
			return scalarOfTerm(tt.Sle(b, a))
		}
		return scalarOfTerm(tt.Ule(b, a))
	}
	e.unsupported("int binop " + op.String())
	return Value{}
}

func (e *Engine) strEq(a, b *Str) *Term {
	if a.Len() != b.Len() {
		return e.tt.tFalse
	}
	if a.b == nil && b.b == nil {
		return e.tt.Bool(a.s == b.s)
	}
	r := e.tt.tTrue
	for i := 0; i < a.Len(); i++ {
		x, y := a.at(i), b.at(i)
		if x.T == nil && y.T == nil {
			if x.N != y.N {
				return e.tt.tFalse
			}
			continue
		}
		r = e.tt.And(r, e.tt.Eq(e.term(x, 8), e.term(y, 8)))
		if r.IsFalse() {
			return r
		}
	}
	return r
}

// strLess builds a < b (or a <= b) lexicographically.
func (e *Engine) strLess(a, b *Str, orEq bool) *Term {
	if a.b == nil && b.b == nil {
		if orEq {
			return e.tt.Bool(a.s <= b.s)
		}
		return e.tt.Bool(a.s < b.s)
	}
	n := a.Len()
	if b.Len() < n {
		n = b.Len()
	}
	// tail result when the common prefix is equal
	var res *Term
	if a.Len() < b.Len() {
		res = e.tt.tTrue
	} else if a.Len() == b.Len() {
		res = e.tt.Bool(orEq)
	} else {
		res = e.tt.tFalse
	}
	for i := n - 1; i >= 0; i-- {
		x, y := e.term(a.at(i), 8), e.term(b.at(i), 8)
		res = e.tt.Ite(e.tt.Ult(x, y), e.tt.tTrue, e.tt.Ite(e.tt.Eq(x, y), res, e.tt.tFalse))
	}
	return res
}

// valEq is general Go equality.
func (e *Engine) valEq(x, y Value, t types.Type) *Term {
	switch u := t.Underlying().(type) {
	case *types.Basic:
		si := e.scalar(t)
		switch si.kind {
		case 1:
			return e.tt.Eq(e.boolTerm(x), e.boolTerm(y))
		case 2:
			if x.T == nil && y.T == nil {
				return e.tt.Bool(x.N == y.N)
			}
			return e.tt.Eq(e.term(x, si.w), e.term(y, si.w))
		case 3:
			return e.tt.Bool(floatOf(x, si.w) == floatOf(y, si.w))
		case 4:
			return e.strEq(x.str(), y.str())
		}
		if u.Kind() == types.UnsafePointer {
			return e.tt.Bool(ptrEq(x, y))
		}
		if u.Kind() == types.UntypedNil {
			return e.tt.Bool(x.O == nil && y.O == nil)
		}
	case *types.Pointer:
		return e.tt.Bool(ptrEq(x, y))
	case *types.Interface:
		return e.ifaceEq(x, y)
	case *types.Struct:
		r := e.tt.tTrue
		for i := 0; i < u.NumFields(); i++ {
			var a, b Value
			if x.O != nil {
				a = x.O.(*Tuple).e[i]
			} else {
				a = e.zero(u.Field(i).Type())
			}
			if y.O != nil {
				b = y.O.(*Tuple).e[i]
			} else {
				b = e.zero(u.Field(i).Type())
			}
			r = e.tt.And(r, e.valEq(a, b, u.Field(i).Type()))
			if r.IsFalse() {
				return r
			}
		}
		return r
	case *types.Array:
		r := e.tt.tTrue
		for i := 0; i < int(u.Len()); i++ {
			var a, b Value
			if x.O != nil {
				a = x.O.(*Tuple).e[i]
			} else {
				a = e.zero(u.Elem())
			}
			if y.O != nil {
				b = y.O.(*Tuple).e[i]
			} else {
				b = e.zero(u.Elem())
			}
			r = e.tt.And(r, e.valEq(a, b, u.Elem()))
			if r.IsFalse() {
				return r
			}
		}
		return r
	case *types.Slice, *types.Map, *types.Signature, *types.Chan:
		// only comparison with nil is legal
		if x.O == nil || y.O == nil {
			return e.tt.Bool(x.O == nil && y.O == nil)
		}
		if _, ok := u.(*types.Map); ok {
			return e.tt.Bool(x.O == y.O)
		}
		if _, ok := u.(*types.Chan); ok {
			return e.tt.Bool(x.O == y.O)
		}
	}
	e.unsupported("equality on " + t.String())
	return nil
}

func ptrEq(x, y Value) bool {
	if x.O == nil || y.O == nil {
		return x.O == nil && y.O == nil
	}
	a, ok1 := x.O.(Ptr)
	b, ok2 := y.O.(Ptr)
	if ok1 && ok2 {
		return a.n == b.n && a.idx == b.idx
	}
	return x.O == y.O
}

func (e *Engine) ifaceEq(x, y Value) *Term {
	a, _ := x.O.(*Iface)
	b, _ := y.O.(*Iface)
	if a == nil || b == nil {
		return e.tt.Bool(a == nil && b == nil)
	}
	if !types.Identical(a.t, b.t) {
		return e.tt.tFalse
	}
	if !types.Comparable(a.t) {
		e.goPanicStr("runtime error: comparing uncomparable type " + a.t.String())
		panic(goPanicSignal{})
	}
	return e.valEq(a.v, b.v, a.t)
}

func (e *Engine) convert(x Value, from, to types.Type) Value {
	fsi, tsi := e.scalar(from), e.scalar(to)
	switch {
	case fsi.kind == 2 && tsi.kind == 2:
		if x.T != nil {
			var t *Term
			if tsi.w > fsi.w {
				t = e.extend(x.T, fsi, tsi.w)
			} else {
				t = e.tt.Extract(x.T, tsi.w-1, 0)
			}
			return scalarOfTerm(t)
		}
		v := x.N
		if tsi.w > fsi.w && fsi.signed {
			v = uint64(sext64(v, fsi.w))
		}
		return Value{N: v & mask(tsi.w)}
	case fsi.kind == 2 && tsi.kind == 3:
		if x.T != nil {
			e.unsupported("symbolic int to float")
		}
		if fsi.signed {
			return floatV(float64(sext64(x.N, fsi.w)), tsi.w)
		}
		return floatV(float64(x.N), tsi.w)
	case fsi.kind == 3 && tsi.kind == 2:
		f := floatOf(x, fsi.w)
		if tsi.signed {
			return Value{N: uint64(int64(f)) & mask(tsi.w)}
		}
		return Value{N: uint64(f) & mask(tsi.w)}
	case fsi.kind == 3 && tsi.kind == 3:
		return floatV(floatOf(x, fsi.w), tsi.w)
	case fsi.kind == 2 && tsi.kind == 4:
		// string(rune)
		if x.T != nil {
			t32 := e.extend(x.T, fsi, 32)
			if fsi.w > 32 {
				// values outside the rune range encode as U+FFFD
				inr := e.tt.Ule(e.extend(x.T, fsi, 64), e.tt.Const(0x10FFFF, 64))
				if fsi.w == 64 && !e.branch(inr) {
					return strV("\uFFFD")
				}
			}
			return Value{O: normStr(e.encodeRuneSym(Value{T: t32}))}
		}
		r := rune(sext64(x.N, fsi.w))
		if !fsi.signed {
			r = rune(x.N)
			if x.N > 0x10ffff {
				r = utf8.RuneError
			}
		}
		return strV(string(r))
	case fsi.kind == 4 && tsi.kind == 4:
		return x
	}
	// string <-> []byte / []rune
	if fsi.kind == 4 {
		if st, ok := to.Underlying().(*types.Slice); ok {
			s := x.str()
			esi := e.scalar(st.Elem())
			if esi.w == 8 {
				arr := e.newArray(st.Elem(), s.Len())
				copy(arr.flat, s.bytes())
				return Value{O: &Slice{arr: arr, len: s.Len(), cap: s.Len()}}
			}
			// []rune
			if s.b != nil {
				allASCII := true
				for _, b := range s.b {
					if b.T != nil {
						isA := e.tt.Ult(b.T, e.tt.Const(0x80, 8))
						if !e.branch(isA) {
							e.unsupported("[]rune of symbolic non-ASCII string")
						}
					} else if b.N >= 0x80 {
						allASCII = false
					}
				}
				if !allASCII {
					e.unsupported("[]rune of mixed symbolic string")
				}
				arr := e.newArray(st.Elem(), s.Len())
				for i, b := range s.b {
					if b.T != nil {
						arr.flat[i] = Value{T: e.tt.Zext(b.T, 32)}
					} else {
						arr.flat[i] = b
					}
				}
				return Value{O: &Slice{arr: arr, len: s.Len(), cap: s.Len()}}
			}
			rs := []rune(s.s)
			arr := e.newArray(st.Elem(), len(rs))
			for i, r := range rs {
				arr.flat[i] = Value{N: uint64(uint32(r))}
			}
			return Value{O: &Slice{arr: arr, len: len(rs), cap: len(rs)}}
		}
	}
	if tsi.kind == 4 {
		if st, ok := from.Underlying().(*types.Slice); ok {
			s := x.slice()
			esi := e.scalar(st.Elem())
			if esi.w == 8 {
				if s.len == 0 {
					return strV("")
				}
				b := make([]Value, s.len)
				copy(b, s.arr.flat[s.off:s.off+s.len])
				return Value{O: normStr(b)}
			}
			rs := make([]rune, s.len)
			for i := 0; i < s.len; i++ {
				v := s.arr.flat[s.off+i]
				if v.T != nil {
					e.unsupported("string([]rune) with symbolic rune")
				}
				rs[i] = rune(int32(uint32(v.N)))
			}
			return strV(string(rs))
		}
	}
	// pointer <-> unsafe.Pointer, and identical underlying types
	switch from.Underlying().(type) {
	case *types.Pointer, *types.Slice, *types.Map, *types.Signature, *types.Struct, *types.Array, *types.Interface, *types.Chan:
		return x
	case *types.Basic:
		if from.Underlying().(*types.Basic).Kind() == types.UnsafePointer {
			return x
		}
		if tb, ok := to.Underlying().(*types.Basic); ok && tb.Kind() == types.UnsafePointer {
			return x
		}
	}
	e.unsupported(fmt.Sprintf("convert %s -> %s", from, to))
	return Value{}
}
