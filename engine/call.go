package main

// Calls, returns, defers, panics, builtins.

import (
	"fmt"
	"go/types"
	"strings"

	"golang.org/x/tools/go/ssa"
)

type intrinsicFn func(e *Engine, args []Value, call *callCtx) Value

type callCtx struct {
	fn   *ssa.Function
	site ssa.Instruction
	sig  *types.Signature
}

// prepareCall evaluates callee and arguments of a call site.
func (e *Engine) prepareCall(fr *Frame, cc *ssa.CallCommon, ci *cInstr) (Value, []Value) {
	// operand layout from CallCommon.Operands: Value, then Args
	v := e.operand(fr, &ci.ops[0])
	nargs := len(cc.Args)
	if cc.IsInvoke() {
		ifc, _ := v.O.(*Iface)
		if ifc == nil {
			e.nilDeref()
		}
		fn := e.lookupMethod(ifc.t, cc.Method)
		args := make([]Value, 0, nargs+1)
		args = append(args, ifc.v)
		for i := 0; i < nargs; i++ {
			args = append(args, e.operand(fr, &ci.ops[1+i]))
		}
		return Value{O: &Closure{fn: fn}}, args
	}
	args := make([]Value, nargs)
	for i := 0; i < nargs; i++ {
		args[i] = e.operand(fr, &ci.ops[1+i])
	}
	return v, args
}

func (e *Engine) lookupMethod(t types.Type, m *types.Func) *ssa.Function {
	k := methKey{t, m.Id()}
	if fn, ok := e.methCache[k]; ok {
		return fn
	}
	// the map is keyed by type identity pointer; fall back to a scan for
	// identical types
	ms := e.P.prog.MethodSets.MethodSet(t)
	sel := ms.Lookup(m.Pkg(), m.Name())
	if sel == nil {
		panic(fmt.Sprintf("no method %s on %s", m.Name(), t))
	}
	fn := e.P.prog.MethodValue(sel)
	e.methCache[k] = fn
	return fn
}

func (e *Engine) doCall(th *Thread, fr *Frame, cc *ssa.CallCommon, ci *cInstr, dst int, isDefer bool) {
	callee, args := e.prepareCall(fr, cc, ci)
	e.invoke(th, callee, args, dst, isDefer, ci.ins)
}

// invoke calls a closure value. For interpreted functions a frame is pushed;
// builtins and intrinsics complete immediately and write their result to dst
// of the current top frame.
func (e *Engine) invoke(th *Thread, callee Value, args []Value, dst int, isDefer bool, site ssa.Instruction) {
	cl, _ := callee.O.(*Closure)
	if cl == nil {
		e.nilDeref()
	}
	if cl.bi != nil {
		res := e.builtin(cl.bi, args, site)
		if dst >= 0 && th.top != nil {
			th.top.regs[dst] = res
		}
		return
	}
	fn := cl.fn
	if fn.Synthetic == "package initializer" && e.inInitOf != nil && fn.Pkg != e.inInitOf {
		return // other packages are initialised lazily on first use
	}
	rs := e.resolved[fn]
	if rs == nil {
		rs = e.resolveCallee(fn)
		e.resolved[fn] = rs
	}
	name := rs.name
	if rs.redirFrom != "" {
		e.stubsHit[rs.redirFrom] = true
	}
	fn = rs.fn
	if rs.in != nil {
		e.stubsHit[rs.inName] = true
		caller := th.top
		e.curDst = dst
		res := rs.in(e, args, &callCtx{fn: fn, site: site, sig: fn.Signature})
		if e.done {
			return
		}
		if dst >= 0 && th.top == caller && caller != nil {
			caller.regs[dst] = res
		}
		return
	}
	if len(fn.Blocks) == 0 && fn.Pkg != nil {
		// assembly kernels with a pure-Go twin (math/big: addVV -> addVV_g, ...)
		if g := fn.Pkg.Func(fn.Name() + "_g"); g != nil && len(g.Blocks) > 0 {
			fn = g
		}
	}
	if len(fn.Blocks) == 0 {
		e.unsupported("function without body: " + name)
	}
	e.pushFrame(th, fn, args, cl.env, dst, isDefer)
}

func (e *Engine) pushFrame(th *Thread, fn *ssa.Function, args []Value, env []Value, dst int, isDefer bool) {
	fi := e.info(fn)
	if !e.funcsSeen[fn] {
		e.funcsSeen[fn] = true
	}
	depth := 0
	if th.top != nil {
		depth = th.top.depth + 1
	}
	if depth > 2000 {
		e.unsupported("call depth > 2000")
	}
	if e.pendingAdv != nil {
		e.pendingAdv.ip++
		e.pendingAdv = nil
	}
	fr := &Frame{fi: fi, regs: make([]Value, fi.nregs), caller: th.top, dst: dst, isDefer: isDefer, depth: depth}
	if len(args) != fi.nparams {
		panic(fmt.Sprintf("call of %s with %d args, want %d", fn, len(args), fi.nparams))
	}
	copy(fr.regs, args)
	copy(fr.regs[fi.nparams:], env)
	th.top = fr
}

func (e *Engine) doReturn(th *Thread, res Value) {
	fr := th.top
	th.top = fr.caller
	caller := th.top
	if caller == nil {
		th.done = true
		th.result = res
		e.threadFinished(th)
		return
	}
	switch caller.mode {
	case modeNormal:
		if fr.dst >= 0 {
			caller.regs[fr.dst] = res
		}
	case modeRunDefers, modeRecoveredDefers:
		e.continueDefers(th, caller)
	case modePanicDefers:
		if th.recovered {
			th.recovered = false
			th.panicking = false
			th.panicVal = Value{}
			caller.mode = modeRecoveredDefers
			e.continueDefers(th, caller)
			return
		}
		e.unwind(th)
	}
}

// continueDefers runs the next deferred call of fr, or resumes fr.
func (e *Engine) continueDefers(th *Thread, fr *Frame) {
	for len(fr.defers) > 0 {
		d := fr.defers[len(fr.defers)-1]
		fr.defers = fr.defers[:len(fr.defers)-1]
		e.invoke(th, d.callee, d.args, -1, true, d.ins)
		if e.done || th.top != fr {
			return // a frame was pushed (or a panic started); we come back via doReturn
		}
	}
	switch fr.mode {
	case modeRunDefers:
		fr.mode = modeNormal
	case modeRecoveredDefers:
		fr.mode = modeNormal
		if rb := fr.fi.fn.Recover; rb != nil {
			fr.prev = fr.blk
			fr.blk = rb.Index
			fr.ip = 0
			return
		}
		// no recover block: return zero values
		sig := fr.fi.fn.Signature
		var res Value
		switch sig.Results().Len() {
		case 0:
		case 1:
			res = e.zero(sig.Results().At(0).Type())
		default:
			res = e.zero(sig.Results())
		}
		e.doReturn(th, res)
	}
}

func (e *Engine) startPanic(v Value) {
	th := e.th
	th.panicking = true
	th.recovered = false
	th.panicVal = v
	if th.top != nil {
		// site: innermost repo function on the stack, else innermost function
		site := th.top.fi.name
		for fr := th.top; fr != nil; fr = fr.caller {
			if fr.fi.isRepo && !strings.Contains(fr.fi.name, "/internal/v") && !strings.Contains(fr.fi.name, ".VH_") && !strings.Contains(fr.fi.name, ".vh") {
				site = fr.fi.name
				break
			}
		}
		th.panicSite = site
		e.panicStack = e.stackTrace(th)
	}
	e.unwind(th)
}

func (e *Engine) unwind(th *Thread) {
	for {
		fr := th.top
		if fr == nil {
			th.done = true
			e.done = true
			e.outcome = "panic"
			return
		}
		if len(fr.defers) > 0 {
			fr.mode = modePanicDefers
			d := fr.defers[len(fr.defers)-1]
			fr.defers = fr.defers[:len(fr.defers)-1]
			e.invoke(th, d.callee, d.args, -1, true, d.ins)
			if e.done {
				return
			}
			if th.top != fr {
				return // deferred function is running
			}
			// builtin/intrinsic deferred call completed immediately
			if th.recovered {
				th.recovered = false
				th.panicking = false
				th.panicVal = Value{}
				fr.mode = modeRecoveredDefers
				e.continueDefers(th, fr)
				return
			}
			continue
		}
		th.top = fr.caller
	}
}

func (e *Engine) threadFinished(th *Thread) {
	e.threadExited(th)
}

func (e *Engine) builtin(b *ssa.Builtin, args []Value, site ssa.Instruction) Value {
	sig := b.Type().(*types.Signature)
	switch b.Name() {
	case "len":
		switch o := args[0].O.(type) {
		case nil:
			return intV(0)
		case *Str:
			return intV(uint64(o.Len()))
		case *Slice:
			return intV(uint64(o.len))
		case *MapObj:
			return intV(uint64(len(o.d.keys)))
		case *Tuple:
			return intV(uint64(len(o.e)))
		case Ptr: // pointer to array
			return intV(uint64(o.n.arrLen()))
		}
		if at, ok := sig.Params().At(0).Type().Underlying().(*types.Array); ok {
			return intV(uint64(at.Len()))
		}
	case "cap":
		switch o := args[0].O.(type) {
		case nil:
			return intV(0)
		case *Slice:
			return intV(uint64(o.cap))
		case Ptr:
			return intV(uint64(o.n.arrLen()))
		case *Tuple:
			return intV(uint64(len(o.e)))
		}
	case "append":
		return e.appendOp(args[0], args[1], sig)
	case "copy":
		dst := args[0].slice()
		var n int
		if s, ok := args[1].O.(*Str); ok {
			n = s.Len()
			if dst.len < n {
				n = dst.len
			}
			for i := 0; i < n; i++ {
				e.arrSet(dst.arr, dst.off+i, s.at(i))
			}
		} else {
			src := args[1].slice()
			n = src.len
			if dst.len < n {
				n = dst.len
			}
			if n > 0 {
				if src.arr == dst.arr && src.off < dst.off {
					for i := n - 1; i >= 0; i-- {
						e.arrSet(dst.arr, dst.off+i, e.arrGet(src.arr, src.off+i))
					}
				} else {
					for i := 0; i < n; i++ {
						e.arrSet(dst.arr, dst.off+i, e.arrGet(src.arr, src.off+i))
					}
				}
			}
		}
		return intV(uint64(n))
	case "delete":
		e.mapDelete(args[0], args[1])
		return Value{}
	case "clear":
		switch o := args[0].O.(type) {
		case *MapObj:
			e.mapClear(args[0])
		case *Slice:
			st := sig.Params().At(0).Type().Underlying().(*types.Slice)
			z := e.zero(st.Elem())
			for i := 0; i < o.len; i++ {
				e.arrSet(o.arr, o.off+i, z)
			}
		}
		return Value{}
	case "min", "max":
		t := sig.Params().At(0).Type()
		si := e.scalar(t)
		r := args[0]
		for _, a := range args[1:] {
			var lt Value
			if b.Name() == "min" {
				lt = e.binop(tokLSS, a, r, t, t, site)
			} else {
				lt = e.binop(tokLSS, r, a, t, t, site)
			}
			if lt.T != nil {
				if si.kind != 2 {
					e.unsupported("symbolic min/max on non-int")
				}
				r = Value{T: e.tt.Ite(lt.T, e.term(a, si.w), e.term(r, si.w))}
			} else if lt.N != 0 {
				r = a
			}
		}
		return r
	case "print", "println":
		return Value{}
	case "recover":
		th := e.th
		fr := th.top
		// valid only when called directly by a deferred function during panicking
		if th.panicking && fr != nil && fr.isDefer && fr.caller != nil && fr.caller.mode == modePanicDefers && !th.recovered {
			v := th.panicVal
			th.recovered = true
			return v
		}
		return Value{}
	case "close":
		e.unsupported("close(chan)")
	case "ssa:wrapnilchk":
		if args[0].O == nil {
			e.nilDeref()
		}
		return args[0]
	case "String": // unsafe.String
		p, ok := args[0].O.(Ptr)
		n := int(args[1].N)
		if args[1].T != nil {
			e.unsupported("unsafe.String with symbolic length")
		}
		if !ok || n == 0 {
			return strV("")
		}
		b := make([]Value, n)
		if p.idx < 0 {
			if p.n.kind == nkArrFlat {
				copy(b, p.n.flat[:n])
			} else {
				b[0] = p.n.v
			}
		} else {
			copy(b, p.n.flat[p.idx:p.idx+n])
		}
		return Value{O: normStr(b)}
	case "StringData":
		s := args[0].str()
		if s.Len() == 0 {
			return Value{}
		}
		arr := e.newArray(types.Typ[types.Uint8], s.Len())
		copy(arr.flat, s.bytes())
		return Value{O: Ptr{arr, 0}}
	case "SliceData":
		s := args[0].slice()
		if s.arr == nil {
			return Value{}
		}
		if s.cap == 0 {
			return Value{O: Ptr{e.newArray(types.Typ[types.Uint8], 1), 0}}
		}
		return Value{O: elemPtr(s.arr, s.off)}
	case "Slice": // unsafe.Slice(ptr, len)
		p, ok := args[0].O.(Ptr)
		if args[1].T != nil {
			e.unsupported("unsafe.Slice with symbolic length")
		}
		n := int(args[1].N)
		if !ok {
			return Value{}
		}
		if p.idx >= 0 {
			return Value{O: &Slice{arr: p.n, off: p.idx, len: n, cap: n}}
		}
		if p.n.kind == nkArrFlat || p.n.kind == nkArrKids {
			return Value{O: &Slice{arr: p.n, off: 0, len: n, cap: n}}
		}
		e.unsupported("unsafe.Slice on non-array pointer")
	case "Add":
		p, ok := args[0].O.(Ptr)
		if ok && p.idx >= 0 && args[1].T == nil {
			return Value{O: Ptr{p.n, p.idx + int(int64(args[1].N))}}
		}
		e.unsupported("unsafe.Add")
	}
	e.unsupported("builtin " + b.Name())
	return Value{}
}

func (e *Engine) appendOp(sv, tv Value, sig *types.Signature) Value {
	st := sig.Params().At(0).Type().Underlying().(*types.Slice)
	s := sv.slice()
	var addN int
	var getEl func(i int) Value
	if ts, ok := tv.O.(*Str); ok {
		addN = ts.Len()
		getEl = func(i int) Value { return ts.at(i) }
	} else {
		t := tv.slice()
		addN = t.len
		getEl = func(i int) Value { return e.arrGet(t.arr, t.off+i) }
	}
	if addN == 0 {
		return sv
	}
	need := s.len + addN
	if need <= s.cap {
		// snapshot source first (it may alias the destination)
		tmp := make([]Value, addN)
		for i := range tmp {
			tmp[i] = getEl(i)
		}
		for i := 0; i < addN; i++ {
			e.arrSet(s.arr, s.off+s.len+i, tmp[i])
		}
		return Value{O: &Slice{arr: s.arr, off: s.off, len: need, cap: s.cap}}
	}
	ncap := s.cap * 2
	if ncap < need {
		ncap = need
	}
	if ncap < 4 {
		ncap = 4
	}
	arr := e.newArray(st.Elem(), ncap)
	for i := 0; i < s.len; i++ {
		e.arrSetFresh(arr, i, e.arrGet(s.arr, s.off+i))
	}
	for i := 0; i < addN; i++ {
		e.arrSetFresh(arr, s.len+i, getEl(i))
	}
	return Value{O: &Slice{arr: arr, off: 0, len: need, cap: ncap}}
}

// arrSetFresh writes into a freshly allocated array (no trail needed).
func (e *Engine) arrSetFresh(n *Node, i int, v Value) {
	if n.kind == nkArrFlat {
		n.flat[i] = v
		return
	}
	e.storeNode(n.kids[i], v)
}

// calleeRes caches what a static callee resolves to (redirect, intrinsic).
type calleeRes struct {
	name      string
	fn        *ssa.Function
	redirFrom string
	in        intrinsicFn
	inName    string
}

func (e *Engine) resolveCallee(fn *ssa.Function) *calleeRes {
	rs := &calleeRes{name: fn.String(), fn: fn}
	if r, ok := e.redirects[rs.name]; ok {
		rs.redirFrom = rs.name
		rs.fn = r
	} else if fn.Origin() != nil {
		if r, ok := e.redirects[fn.Origin().String()]; ok {
			rs.redirFrom = fn.Origin().String()
			rs.fn = r
		}
	}
	fn = rs.fn
	if in, ok := e.intrinsics[fn.String()]; ok {
		rs.in, rs.inName = in, fn.String()
	} else if fn.Origin() != nil {
		if in, ok := e.intrinsics[fn.Origin().String()]; ok {
			rs.in, rs.inName = in, fn.Origin().String()
		}
	}
	return rs
}
