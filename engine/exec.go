package main

// Instruction execution.

import (
	"fmt"
	"go/token"
	"go/types"
	"os"
	"sort"

	"golang.org/x/tools/go/ssa"
)

func (e *Engine) unsupported(what string) {
	if e.cfg.Verbose > 0 && !e.unsupSeen[what] {
		if e.unsupSeen == nil {
			e.unsupSeen = map[string]bool{}
		}
		e.unsupSeen[what] = true
		fmt.Fprintf(os.Stderr, "[shard %d] unsupported: %s\n  at instr: %s\n%s", e.cfg.Shard, what, e.curInstr(), e.stackTrace(e.th))
	}
	panic(&pathAbort{"unsupported:" + what})
}

// goPanic raises a Go-level panic in the interpreted program.
func (e *Engine) goPanicStr(msg string) {
	v := Value{O: &Iface{t: types.Typ[types.String], v: strV(msg)}}
	e.startPanic(v)
}

type goPanicSignal struct{}

func (e *Engine) step() {
	th := e.th
	fr := th.top
	e.stepMark = len(e.trail)
	e.stepPS = e.savePS()
	e.stepTop = fr
	e.stepFr = *fr
	e.stepTh = *th
	e.stepThread = th
	e.stepNThreads = len(e.threads)
	e.stepRaceOn = e.raceOn
	e.pendingAdv = nil
	e.stepCount++
	if e.cfg.Verbose > 0 && e.stepCount%20000000 == 0 {
		fmt.Fprintf(os.Stderr, "[shard %d] %dM steps, paths=%d forks=%d, at:\n%s", e.cfg.Shard, e.stepCount/1000000, e.res.Paths, e.res.Forks, e.stackTrace(th))
	}
	if e.cfg.MaxSteps > 0 && e.stepCount > e.cfg.MaxSteps {
		e.done = true
		e.outcome = "unwind"
		return
	}
	ci := &fr.fi.blocks[fr.blk][fr.ip]
	e.exec(th, fr, ci)
	if e.preUsed < len(e.pre) {
		panic(fmt.Sprintf("unconsumed pre-decisions after %v in %s", ci.ins, fr.fi.name))
	}
	if e.pre != nil {
		e.pre = nil
	}
	e.preUsed, e.decSeq = 0, 0
}

func (e *Engine) jump(fr *Frame, to int) {
	if to <= fr.blk {
		fr.backs++
		if e.cfg.MaxBackEdges > 0 && fr.backs > e.cfg.MaxBackEdges {
			e.done = true
			e.outcome = "unwind"
			e.res.InconcNotes["unwind:"+fr.fi.name]++
			e.unwindFn = fr.fi.name
			return
		}
	}
	fr.prev = fr.blk
	fr.blk = to
	fr.ip = 0
}

func (e *Engine) exec(th *Thread, fr *Frame, ci *cInstr) {
	defer func() {
		if r := recover(); r != nil {
			if _, ok := r.(goPanicSignal); ok {
				return // panic state has been set up; main loop continues with unwinding
			}
			if _, ok := r.(retrySignal); ok {
				e.pendingAdv = nil
				return // the thread was descheduled before a synchronising operation; it retries later
			}
			panic(r)
		}
	}()
	switch ins := ci.ins.(type) {
	case *ssa.Phi:
		// all phis of a block are evaluated simultaneously
		code := fr.fi.blocks[fr.blk]
		pi := fr.fi.predIdx[fr.blk][fr.prev]
		n := fr.fi.nphi[fr.blk] - fr.ip
		if n == 1 {
			fr.regs[ci.dst] = e.operand(fr, &ci.ops[pi])
		} else {
			tmp := make([]Value, n)
			for i := 0; i < n; i++ {
				c := &code[fr.ip+i]
				tmp[i] = e.operand(fr, &c.ops[pi])
			}
			for i := 0; i < n; i++ {
				fr.regs[code[fr.ip+i].dst] = tmp[i]
			}
		}
		fr.ip += n
		return

	case *ssa.BinOp:
		x := e.operand(fr, &ci.ops[0])
		y := e.operand(fr, &ci.ops[1])
		fr.regs[ci.dst] = e.binop(ins.Op, x, y, ins.X.Type(), ins.Y.Type(), ins)

	case *ssa.UnOp:
		x := e.operand(fr, &ci.ops[0])
		fr.regs[ci.dst] = e.unop(ins, x)

	case *ssa.If:
		c := e.operand(fr, &ci.ops[0])
		var taken bool
		if c.T != nil {
			taken = e.branch(c.T)
		} else {
			taken = c.N != 0
		}
		b := fr.fi.fn.Blocks[fr.blk]
		if taken {
			e.jump(fr, b.Succs[0].Index)
		} else {
			e.jump(fr, b.Succs[1].Index)
		}
		return

	case *ssa.Jump:
		e.jump(fr, fr.fi.fn.Blocks[fr.blk].Succs[0].Index)
		return

	case *ssa.Return:
		var res Value
		switch len(ci.ops) {
		case 0:
		case 1:
			res = e.operand(fr, &ci.ops[0])
		default:
			t := &Tuple{e: make([]Value, len(ci.ops))}
			for i := range ci.ops {
				t.e[i] = e.operand(fr, &ci.ops[i])
			}
			res = Value{O: t}
		}
		e.doReturn(th, res)
		return

	case *ssa.Call:
		e.pendingAdv = fr
		e.doCall(th, fr, &ins.Call, ci, ci.dst, false)
		if e.pendingAdv != nil {
			e.pendingAdv = nil
			fr.ip++
		}
		return

	case *ssa.Defer:
		callee, args := e.prepareCall(fr, &ins.Call, ci)
		fr.defers = append(fr.defers, deferRec{callee: callee, args: args, ins: ins})

	case *ssa.Go:
		callee, args := e.prepareCall(fr, &ins.Call, ci)
		e.spawn(callee, args)
		_ = ins

	case *ssa.RunDefers:
		fr.ip++
		fr.mode = modeRunDefers
		e.continueDefers(th, fr)
		return

	case *ssa.Panic:
		x := e.operand(fr, &ci.ops[0])
		e.startPanic(x)
		return

	case *ssa.Alloc:
		n := e.newNode(ins.Type().(*types.Pointer).Elem())
		fr.regs[ci.dst] = Value{O: Ptr{n, -1}}

	case *ssa.Store:
		addr := e.operand(fr, &ci.ops[0])
		val := e.operand(fr, &ci.ops[1])
		e.storeVia(addr, val)

	case *ssa.FieldAddr:
		x := e.operand(fr, &ci.ops[0])
		p, ok := x.O.(Ptr)
		if !ok {
			e.nilDeref()
		}
		fr.regs[ci.dst] = Value{O: Ptr{p.n.kids[ins.Field], -1}}

	case *ssa.Field:
		x := e.operand(fr, &ci.ops[0])
		if x.O == nil {
			fr.regs[ci.dst] = e.zero(ins.Type())
		} else {
			fr.regs[ci.dst] = x.O.(*Tuple).e[ins.Field]
		}

	case *ssa.IndexAddr:
		x := e.operand(fr, &ci.ops[0])
		idx := e.operand(fr, &ci.ops[1])
		fr.regs[ci.dst] = e.indexAddr(x, idx, ins)

	case *ssa.Index:
		x := e.operand(fr, &ci.ops[0])
		idx := e.operand(fr, &ci.ops[1])
		fr.regs[ci.dst] = e.indexValue(x, idx, ins.X.Type(), ins.Index.Type(), ins.Type())

	case *ssa.Lookup:
		x := e.operand(fr, &ci.ops[0])
		idx := e.operand(fr, &ci.ops[1])
		if _, ok := ins.X.Type().Underlying().(*types.Map); ok {
			fr.regs[ci.dst] = e.mapLookup(x, idx, ins.X.Type().Underlying().(*types.Map), ins.CommaOk)
		} else {
			fr.regs[ci.dst] = e.indexValue(x, idx, ins.X.Type(), ins.Index.Type(), ins.Type())
		}

	case *ssa.Slice:
		fr.regs[ci.dst] = e.sliceOp(fr, ins, ci)

	case *ssa.Extract:
		x := e.operand(fr, &ci.ops[0])
		fr.regs[ci.dst] = x.O.(*Tuple).e[ins.Index]

	case *ssa.Convert:
		x := e.operand(fr, &ci.ops[0])
		fr.regs[ci.dst] = e.convert(x, ins.X.Type(), ins.Type())

	case *ssa.MultiConvert:
		x := e.operand(fr, &ci.ops[0])
		fr.regs[ci.dst] = e.convert(x, ins.X.Type(), ins.Type())

	case *ssa.ChangeType:
		fr.regs[ci.dst] = e.operand(fr, &ci.ops[0])

	case *ssa.ChangeInterface:
		fr.regs[ci.dst] = e.operand(fr, &ci.ops[0])

	case *ssa.MakeInterface:
		x := e.operand(fr, &ci.ops[0])
		fr.regs[ci.dst] = Value{O: &Iface{t: ins.X.Type(), v: x}}

	case *ssa.TypeAssert:
		x := e.operand(fr, &ci.ops[0])
		fr.regs[ci.dst] = e.typeAssert(x, ins)

	case *ssa.MakeClosure:
		fn := ins.Fn.(*ssa.Function)
		env := make([]Value, len(ins.Bindings))
		for i := range ins.Bindings {
			env[i] = e.operand(fr, &ci.ops[1+i])
		}
		fr.regs[ci.dst] = Value{O: &Closure{fn: fn, env: env}}

	case *ssa.MakeMap:
		mt := ins.Type().Underlying().(*types.Map)
		fr.regs[ci.dst] = Value{O: e.newMap(mt.Key(), mt.Elem())}

	case *ssa.MapUpdate:
		m := e.operand(fr, &ci.ops[0])
		k := e.operand(fr, &ci.ops[1])
		v := e.operand(fr, &ci.ops[2])
		e.mapUpdate(m, k, v)

	case *ssa.MakeSlice:
		ln := e.operand(fr, &ci.ops[0])
		cp := e.operand(fr, &ci.ops[1])
		fr.regs[ci.dst] = e.makeSlice(ins.Type(), ln, cp)

	case *ssa.SliceToArrayPointer:
		x := e.operand(fr, &ci.ops[0])
		s := x.slice()
		alen := int(ins.Type().(*types.Pointer).Elem().Underlying().(*types.Array).Len())
		if s.len < alen {
			e.goPanicStr("runtime error: cannot convert slice to array pointer: length too short")
			return
		}
		if alen == 0 || s.arr == nil {
			fr.regs[ci.dst] = Value{O: Ptr{e.newNode(ins.Type().(*types.Pointer).Elem()), -1}}
		} else if s.off == 0 && s.arr.arrLen() == alen {
			fr.regs[ci.dst] = Value{O: Ptr{s.arr, -1}}
		} else {
			// view node sharing storage is not supported
			e.unsupported("SliceToArrayPointer with offset")
		}

	case *ssa.Range:
		x := e.operand(fr, &ci.ops[0])
		fr.regs[ci.dst] = e.makeRange(x, ins.X.Type())

	case *ssa.Next:
		it := e.operand(fr, &ci.ops[0])
		fr.regs[ci.dst] = e.rangeNext(it, ins)

	case *ssa.DebugRef:
		// nothing

	case *ssa.Send, *ssa.Select, *ssa.MakeChan:
		e.unsupported(fmt.Sprintf("%T", ins))

	default:
		e.unsupported(fmt.Sprintf("instruction %T", ins))
	}
	fr.ip++
}

func (e *Engine) nilDeref() {
	e.goPanicStr("runtime error: invalid memory address or nil pointer dereference")
	panic(goPanicSignal{})
}

func (e *Engine) storeVia(addr, val Value) {
	switch p := addr.O.(type) {
	case Ptr:
		if e.raceOn {
			e.raceWrite(p)
		}
		e.store(p, val)
	case *SymPtr:
		e.symStore(p, val)
	default:
		e.nilDeref()
	}
}

func (e *Engine) loadVia(addr Value) Value {
	switch p := addr.O.(type) {
	case Ptr:
		if e.raceOn {
			e.raceRead(p)
		}
		return e.load(p)
	case *SymPtr:
		return e.symLoad(p)
	}
	e.nilDeref()
	return Value{}
}

func (e *Engine) unop(ins *ssa.UnOp, x Value) Value {
	switch ins.Op {
	case token.MUL: // load
		return e.loadVia(x)
	case token.NOT:
		if x.T != nil {
			return Value{T: e.tt.Not(x.T)}
		}
		return Value{N: x.N ^ 1}
	case token.SUB:
		si := e.scalar(ins.X.Type())
		if si.kind == 3 {
			return floatV(-floatOf(x, si.w), si.w)
		}
		if x.T != nil {
			return Value{T: e.tt.Neg(x.T)}
		}
		return Value{N: (-x.N) & mask(si.w)}
	case token.XOR:
		si := e.scalar(ins.X.Type())
		if x.T != nil {
			return Value{T: e.tt.BNot(x.T)}
		}
		return Value{N: (^x.N) & mask(si.w)}
	case token.ARROW:
		e.unsupported("channel receive")
	}
	e.unsupported("unop " + ins.Op.String())
	return Value{}
}

// SymPtr designates element idx (a 64-bit term known to be in range) of flat
// array node n.
type SymPtr struct {
	n      *Node
	idx    *Term
	lo, hi int // valid element window [lo,hi)
}

func (e *Engine) symLoad(p *SymPtr) Value {
	// ite chain over the window
	var res Value
	first := true
	w := e.scalar(p.n.etyp).w
	isScalar := e.scalar(p.n.etyp).kind != 0 && e.scalar(p.n.etyp).kind != 4
	if isScalar && p.idx.op != OpConst {
		budget := 64
		okAll := true
		t, ok := e.tt.MapLeaves(p.idx, func(i uint64) *Term {
			if int(i) < p.lo || int(i) >= p.hi {
				okAll = false
				return e.tt.Const(0, w)
			}
			return e.term(p.n.flat[int(i)], w)
		}, &budget)
		if ok && okAll {
			return scalarOfTerm(e.tt.IdentityChain(t))
		}
	}
	for i := p.hi - 1; i >= p.lo; i-- {
		el := p.n.flat[i]
		if first {
			res = el
			first = false
			continue
		}
		c := e.tt.Eq(p.idx, e.tt.Const(uint64(i), 64))
		if isScalar {
			res = scalarOfTerm(e.tt.Ite(c, e.term(el, w), e.term(res, w)))
		} else {
			res = e.iteValue(c, el, res)
		}
	}
	return res
}

// iteValue merges two scalar values.
func (e *Engine) iteValue(c *Term, a, b Value) Value {
	if c.IsTrue() {
		return a
	}
	if c.IsFalse() {
		return b
	}
	if a.T == nil && b.T == nil && a.O == nil && b.O == nil && a.N == b.N {
		return a
	}
	if a.O != nil || b.O != nil {
		if a.O == b.O {
			return a
		}
		e.unsupported("ite over non-scalar values")
	}
	w := uint16(0)
	if a.T != nil {
		w = a.T.w
	} else if b.T != nil {
		w = b.T.w
	} else {
		// both concrete with unknown width: pick minimal width from magnitude
		w = 64
	}
	return Value{T: e.tt.Ite(c, e.term(a, w), e.term(b, w))}
}

func (e *Engine) symStore(p *SymPtr, v Value) {
	if v.O != nil {
		e.unsupported("symbolic-index store of non-scalar")
	}
	for i := p.lo; i < p.hi; i++ {
		old := p.n.flat[i]
		c := e.tt.Eq(p.idx, e.tt.Const(uint64(i), 64))
		w := e.scalar(p.n.etyp).w
		nv := Value{T: e.tt.Ite(c, e.term(v, w), e.term(old, w))}
		if nv.T.op == OpConst {
			nv = Value{N: nv.T.c}
		}
		e.setFlat(p.n, i, nv)
	}
}

// term converts a scalar Value to a term of width w (0 = Bool).
func (e *Engine) term(v Value, w uint16) *Term {
	if v.T != nil {
		return v.T
	}
	return e.tt.Const(v.N, w)
}

func scalarOfTerm(t *Term) Value {
	if t.op == OpConst && t.w <= 64 {
		return Value{N: t.c}
	}
	return Value{T: t}
}

// splitInt case-splits a symbolic integer over [lo,hi]; ok=false selects the
// out-of-range alternative.
func (e *Engine) splitInt(what string, v Value, si scalarInfo, lo, hi int64) (int64, bool) {
	return e.splitInt2(what, v, si, lo, hi, false)
}

func (e *Engine) splitInt2(what string, v Value, si scalarInfo, lo, hi int64, noOut bool) (int64, bool) {
	if v.T == nil {
		var x int64
		if si.signed {
			x = sext64(v.N, si.w)
		} else {
			if v.N > uint64(1<<62) {
				return 0, false
			}
			x = int64(v.N)
		}
		if x < lo || x > hi {
			return x, false
		}
		return x, true
	}
	if c, ok := e.ps.eqs[v.T]; ok {
		x := sext64(c, si.w)
		if !si.signed {
			x = int64(c)
		}
		return x, x >= lo && x <= hi
	}
	d, okPre, k := e.nextPre()
	if okPre {
		if d.idx == 0 {
			return 0, false
		}
		e.noteEq(v.T, uint64(d.payload)&mask(si.w))
		return d.payload, true
	}
	// enumerate feasible values through the solver
	tt := e.tt
	w := si.w
	inRange := func() *Term {
		if lo > hi {
			return tt.tFalse
		}
		if si.signed {
			return tt.And(tt.Sle(tt.Const(uint64(lo), w), v.T), tt.Sle(v.T, tt.Const(uint64(hi), w)))
		}
		l := lo
		if l < 0 {
			l = 0
		}
		return tt.And(tt.Ule(tt.Const(uint64(l), w), v.T), tt.Ule(v.T, tt.Const(uint64(hi), w)))
	}()
	var alts []alt
	if noOut {
		alts = append(alts, alt{cond: tt.tFalse})
	} else {
		alts = append(alts, alt{cond: tt.Not(inRange)})
	}
	max := e.cfg.MaxSplit
	if max <= 0 {
		max = 64
	}
	if what == "make-len" {
		max *= 2 // two free decimal digits reach a length directly
	}
	e.sv.Push()
	e.sv.Assert(inRange)
	n := 0
	for {
		r := e.sv.Check()
		if r == Unsat {
			break
		}
		if r == Unknown {
			e.sv.Pop()
			e.ps.imprecise = true
			e.res.Inconclusive++
			e.res.InconcNotes["solver-unknown-at-split:"+what]++
			panic(&pathAbort{"unsupported:solver unknown during case split " + what})
		}
		m := e.sv.Model([]*Term{})
		_ = m
		val := e.valueOf(v.T)
		n++
		if n > max {
			e.sv.Pop()
			e.res.InconcNotes["split-bound-exceeded:"+what]++
			panic(&pathAbort{"unsupported:case split exceeds bound at " + what})
		}
		var x int64
		if si.signed {
			x = sext64(val, w)
		} else {
			x = int64(val)
		}
		c := tt.Eq(v.T, tt.Const(val, w))
		alts = append(alts, alt{cond: c, payload: x, known: true})
		e.sv.Assert(tt.Not(c))
	}
	e.sv.Pop()
	// canonical order (the solver's enumeration order is not stable across workers)
	sort.Slice(alts[1:], func(i, j int) bool { return alts[1+i].payload < alts[1+j].payload })
	if len(alts) == 2 && (noOut || e.sv.CheckWith(alts[0].cond) == Unsat) {
		// exactly one feasible value and no out-of-range alternative: remember
		// the resolution so that a re-execution of this step reuses it
		e.noteEq(v.T, uint64(alts[1].payload)&mask(w))
		e.pre = append(e.pre, decision{1, alts[1].payload, k})
		e.preUsed++
		return alts[1].payload, true
	}
	e.fork(what, alts, k)
	return 0, false
}

func (e *Engine) noteEq(t *Term, c uint64) {
	if _, ok := e.ps.eqs[t]; ok {
		return
	}
	e.ps.eqs[t] = c
	e.trail = append(e.trail, trailEntry{fn: func() { delete(e.ps.eqs, t) }})
}

// valueOf asks the solver for the value of term t in the current model.
func (e *Engine) valueOf(t *Term) uint64 {
	name := fmt.Sprintf("|q%d|", t.id)
	_ = name
	e.sv.define(t)
	e.sv.flush()
	e.sv.send(fmt.Sprintf("(get-value (%s))\n", e.sv.ref(t)))
	line := e.sv.readLine()
	// ((tN #x..))
	m := map[string]uint64{}
	parseValueLine(line, m)
	return m["v"]
}

func parseValueLine(line string, m map[string]uint64) {
	// find last token before "))"
	i := len(line)
	for i > 0 && (line[i-1] == ')' || line[i-1] == ' ') {
		i--
	}
	j := i
	for j > 0 && line[j-1] != ' ' && line[j-1] != '(' {
		j--
	}
	tok := line[j:i]
	var v uint64
	switch {
	case tok == "true":
		v = 1
	case tok == "false":
		v = 0
	case len(tok) > 2 && tok[:2] == "#x":
		fmt.Sscanf(tok[2:], "%x", &v)
	case len(tok) > 2 && tok[:2] == "#b":
		fmt.Sscanf(tok[2:], "%b", &v)
	}
	m["v"] = v
}

func (e *Engine) indexAddr(x, idx Value, ins *ssa.IndexAddr) Value {
	isi := e.scalar(ins.Index.Type())
	var arr *Node
	var off, ln int
	switch xt := ins.X.Type().Underlying().(type) {
	case *types.Slice:
		s := x.slice()
		arr, off, ln = s.arr, s.off, s.len
	case *types.Pointer:
		p, ok := x.O.(Ptr)
		if !ok {
			e.nilDeref()
		}
		arr, off = p.n, 0
		ln = int(xt.Elem().Underlying().(*types.Array).Len())
	default:
		e.unsupported("IndexAddr on " + ins.X.Type().String())
	}
	if idx.T != nil && arr != nil && arr.kind == nkArrFlat && ln <= 1024 && e.scalar(arr.etyp).kind != 0 && e.scalar(arr.etyp).kind != 4 {
		if _, known := e.ps.eqs[idx.T]; !known {
			// symbolic element pointer: decide in-range vs out-of-range only
			it := e.extend(idx.T, isi, 64)
			var inr *Term
			if isi.signed {
				inr = e.tt.And(e.tt.Sle(e.tt.Const(0, 64), it), e.tt.Slt(it, e.tt.Const(uint64(ln), 64)))
			} else {
				inr = e.tt.Ult(it, e.tt.Const(uint64(ln), 64))
			}
			k, _ := e.decide("index", []alt{{cond: inr}, {cond: e.tt.Not(inr)}})
			if k == 1 {
				e.goPanicStr(fmt.Sprintf("runtime error: index out of range [symbolic] with length %d", ln))
				panic(goPanicSignal{})
			}
			return Value{O: &SymPtr{n: arr, idx: e.tt.Add(it, e.tt.Const(uint64(off), 64)), lo: off, hi: off + ln}}
		}
	}
	i, ok := e.splitInt("index", idx, isi, 0, int64(ln)-1)
	if !ok {
		e.goPanicStr(fmt.Sprintf("runtime error: index out of range [%d] with length %d", i, ln))
		panic(goPanicSignal{})
	}
	return Value{O: elemPtr(arr, off+int(i))}
}

// extend widens an integer term to width w according to signedness.
func (e *Engine) extend(t *Term, si scalarInfo, w uint16) *Term {
	if si.signed {
		return e.tt.Sext(t, w)
	}
	return e.tt.Zext(t, w)
}

func (e *Engine) indexValue(x, idx Value, xt, it, rt types.Type) Value {
	isi := e.scalar(it)
	switch u := xt.Underlying().(type) {
	case *types.Basic: // string
		s := x.str()
		ln := s.Len()
		if idx.T != nil && ln <= 1024 {
			if _, known := e.ps.eqs[idx.T]; !known {
				t64 := e.extend(idx.T, isi, 64)
				var inr *Term
				if isi.signed {
					inr = e.tt.And(e.tt.Sle(e.tt.Const(0, 64), t64), e.tt.Slt(t64, e.tt.Const(uint64(ln), 64)))
				} else {
					inr = e.tt.Ult(t64, e.tt.Const(uint64(ln), 64))
				}
				k, _ := e.decide("index", []alt{{cond: inr}, {cond: e.tt.Not(inr)}})
				if k == 1 {
					e.goPanicStr(fmt.Sprintf("runtime error: index out of range [symbolic] with length %d", ln))
					panic(goPanicSignal{})
				}
				{
					budget := 64
					okAll := true
					t, ok := e.tt.MapLeaves(t64, func(i uint64) *Term {
						if i >= uint64(ln) {
							okAll = false
							return e.tt.Const(0, 8)
						}
						return e.term(s.at(int(i)), 8)
					}, &budget)
					if ok && okAll {
						return scalarOfTerm(e.tt.IdentityChain(t))
					}
				}
				var res Value
				for i := ln - 1; i >= 0; i-- {
					el := s.at(i)
					if i == ln-1 {
						res = el
						continue
					}
					res = e.iteValue(e.tt.Eq(t64, e.tt.Const(uint64(i), 64)), Value{T: e.term(el, 8)}, Value{T: e.term(res, 8)})
				}
				if res.T != nil && res.T.op == OpConst {
					res = Value{N: res.T.c}
				}
				return res
			}
		}
		i, ok := e.splitInt("index", idx, isi, 0, int64(ln)-1)
		if !ok {
			e.goPanicStr(fmt.Sprintf("runtime error: index out of range [%d] with length %d", i, ln))
			panic(goPanicSignal{})
		}
		return s.at(int(i))
	case *types.Array:
		ln := int(u.Len())
		var tp *Tuple
		if x.O != nil {
			tp = x.O.(*Tuple)
		}
		if idx.T != nil && isLeafType(u.Elem()) && ln <= 1024 && e.scalar(u.Elem()).kind != 0 {
			if _, known := e.ps.eqs[idx.T]; !known {
				t64 := e.extend(idx.T, isi, 64)
				var inr *Term
				if isi.signed {
					inr = e.tt.And(e.tt.Sle(e.tt.Const(0, 64), t64), e.tt.Slt(t64, e.tt.Const(uint64(ln), 64)))
				} else {
					inr = e.tt.Ult(t64, e.tt.Const(uint64(ln), 64))
				}
				k, _ := e.decide("index", []alt{{cond: inr}, {cond: e.tt.Not(inr)}})
				if k == 1 {
					e.goPanicStr(fmt.Sprintf("runtime error: index out of range [symbolic] with length %d", ln))
					panic(goPanicSignal{})
				}
				ew := e.scalar(u.Elem()).w
				{
					budget := 64
					okAll := true
					t, ok := e.tt.MapLeaves(t64, func(i uint64) *Term {
						if i >= uint64(ln) {
							okAll = false
							return e.tt.Const(0, ew)
						}
						var el Value
						if tp != nil {
							el = tp.e[int(i)]
						}
						return e.term(el, ew)
					}, &budget)
					if ok && okAll {
						return scalarOfTerm(e.tt.IdentityChain(t))
					}
				}
				var res Value
				for i := ln - 1; i >= 0; i-- {
					var el Value
					if tp != nil {
						el = tp.e[i]
					}
					if i == ln-1 {
						res = el
						continue
					}
					res = e.iteValue(e.tt.Eq(t64, e.tt.Const(uint64(i), 64)), Value{T: e.term(el, ew)}, Value{T: e.term(res, ew)})
				}
				if res.T != nil && res.T.op == OpConst {
					res = Value{N: res.T.c}
				}
				return res
			}
		}
		i, ok := e.splitInt("index", idx, isi, 0, int64(ln)-1)
		if !ok {
			e.goPanicStr(fmt.Sprintf("runtime error: index out of range [%d] with length %d", i, ln))
			panic(goPanicSignal{})
		}
		if tp == nil {
			return e.zero(rt)
		}
		return tp.e[i]
	}
	e.unsupported("Index on " + xt.String())
	return Value{}
}

func (e *Engine) sliceOp(fr *Frame, ins *ssa.Slice, ci *cInstr) Value {
	x := e.operand(fr, &ci.ops[0])
	// operand order: X, Low, High, Max (nil operands present as zero consts)
	getIdx := func(k int, has bool, def int64, lo, hi int64) int64 {
		if !has {
			return def
		}
		v := e.operand(fr, &ci.ops[k])
		var t types.Type
		switch k {
		case 1:
			t = ins.Low.Type()
		case 2:
			t = ins.High.Type()
		default:
			t = ins.Max.Type()
		}
		i, ok := e.splitInt("slice-bound", v, e.scalar(t), lo, hi)
		if !ok {
			e.goPanicStr(fmt.Sprintf("runtime error: slice bounds out of range [%d] (valid %d..%d)", i, lo, hi))
			panic(goPanicSignal{})
		}
		return i
	}
	switch xt := ins.X.Type().Underlying().(type) {
	case *types.Basic: // string
		s := x.str()
		ln := int64(s.Len())
		hi := getIdx(2, ins.High != nil, ln, 0, ln)
		lo := getIdx(1, ins.Low != nil, 0, 0, hi)
		return Value{O: s.slice(int(lo), int(hi))}
	case *types.Slice:
		s := x.slice()
		cp := int64(s.cap)
		mx := getIdx(3, ins.Max != nil, cp, 0, cp)
		hi := getIdx(2, ins.High != nil, int64(s.len), 0, mx)
		lo := getIdx(1, ins.Low != nil, 0, 0, hi)
		if x.O == nil {
			return Value{}
		}
		return Value{O: &Slice{arr: s.arr, off: s.off + int(lo), len: int(hi - lo), cap: int(mx - lo)}}
	case *types.Pointer:
		p, ok := x.O.(Ptr)
		if !ok {
			e.nilDeref()
		}
		alen := xt.Elem().Underlying().(*types.Array).Len()
		mx := getIdx(3, ins.Max != nil, alen, 0, alen)
		hi := getIdx(2, ins.High != nil, alen, 0, mx)
		lo := getIdx(1, ins.Low != nil, 0, 0, hi)
		return Value{O: &Slice{arr: p.n, off: int(lo), len: int(hi - lo), cap: int(mx - lo)}}
	}
	e.unsupported("Slice on " + ins.X.Type().String())
	return Value{}
}

func (e *Engine) makeSlice(t types.Type, ln, cp Value) Value {
	st := t.Underlying().(*types.Slice)
	si := scalarInfo{64, true, 2}
	maxLen := int64(1 << 24)
	if ln.T != nil || cp.T != nil {
		maxLen = 4096
	}
	l, ok := e.splitInt("make-len", ln, si, 0, maxLen)
	if !ok {
		e.goPanicStr("runtime error: makeslice: len out of range")
		panic(goPanicSignal{})
	}
	c, ok := e.splitInt("make-cap", cp, si, l, maxLen)
	if !ok {
		e.goPanicStr("runtime error: makeslice: cap out of range")
		panic(goPanicSignal{})
	}
	arr := e.newArray(st.Elem(), int(c))
	return Value{O: &Slice{arr: arr, off: 0, len: int(l), cap: int(c)}}
}

func (e *Engine) typeAssert(x Value, ins *ssa.TypeAssert) Value {
	ifc, _ := x.O.(*Iface)
	ok := false
	var res Value
	at := ins.AssertedType
	if ifc != nil {
		if types.IsInterface(at) {
			ok = e.implements(ifc.t, at)
			if ok {
				res = x
			}
		} else {
			ok = types.Identical(ifc.t, at)
			if ok {
				res = ifc.v
			}
		}
	}
	if ins.CommaOk {
		if !ok {
			res = e.zero(at)
		}
		return Value{O: &Tuple{e: []Value{res, boolV(ok)}}}
	}
	if !ok {
		have := "nil"
		if ifc != nil {
			have = ifc.t.String()
		}
		e.goPanicStr(fmt.Sprintf("interface conversion: interface is %s, not %s", have, at.String()))
		panic(goPanicSignal{})
	}
	return res
}

func (e *Engine) implements(t types.Type, iface types.Type) bool {
	key := [2]types.Type{t, iface}
	_ = key
	if m := e.implCache.At(t); m != nil {
		if v, ok := m.(map[types.Type]bool)[iface]; ok {
			return v
		}
	} else {
		e.implCache.Set(t, map[types.Type]bool{})
	}
	it := iface.Underlying().(*types.Interface)
	r := types.Implements(t, it)
	e.implCache.At(t).(map[types.Type]bool)[iface] = r
	return r
}

func (e *Engine) makeRange(x Value, t types.Type) Value {
	switch t.Underlying().(type) {
	case *types.Basic:
		return Value{O: &rangeIter{isStr: true, s: x.str()}}
	case *types.Map:
		it := &rangeIter{}
		if x.O != nil {
			m := x.O.(*MapObj)
			it.m = m
			it.keys = append([]Value(nil), m.d.keys...)
		}
		return Value{O: it}
	}
	e.unsupported("range over " + t.String())
	return Value{}
}

func (e *Engine) rangeNext(itv Value, ins *ssa.Next) Value {
	it := itv.O.(*rangeIter)
	// rangeIter is mutable engine-side state: mutate through the trail
	if ins.IsString {
		s := it.s
		if it.pos >= s.Len() {
			return Value{O: &Tuple{e: []Value{boolV(false), intV(0), intV(0)}}}
		}
		pos := it.pos
		end := pos + 4
		if end > s.Len() {
			end = s.Len()
		}
		bs := make([]Value, 0, 4)
		for j := pos; j < end; j++ {
			bs = append(bs, s.at(j))
		}
		r, adv := e.decodeRuneSym(bs)
		e.setIterPos(it, pos+adv)
		return Value{O: &Tuple{e: []Value{boolV(true), intV(uint64(pos)), r}}}
	}
	for it.pos < len(it.keys) {
		k := it.keys[it.pos]
		e.setIterPos(it, it.pos+1)
		// skip keys deleted during iteration
		v, found := e.mapGetConcreteOrSym(it.m, k)
		if !found {
			continue
		}
		return Value{O: &Tuple{e: []Value{boolV(true), k, v}}}
	}
	return Value{O: &Tuple{e: []Value{boolV(false), Value{}, Value{}}}}
}

func (e *Engine) setIterPos(it *rangeIter, p int) {
	old := it.pos
	e.trail = append(e.trail, trailEntry{fn: func() { it.pos = old }})
	it.pos = p
}
