package main

// Exploration: DFS over symbolic decisions with trail-based backtracking,
// obligations, known-finding regions, results.

import (
	"fmt"
	"go/types"
	"hash/fnv"
	"os"
	"sort"
	"strings"
	"sync"
	"time"
)

type Config struct {
	SolverTimeoutMs int
	Shard, NShards  int
	ShardDepth      int
	Claims          *sync.Map // subtree claims shared by the workers of one run (dynamic sharding)
	MaxPaths        int
	MaxBackEdges    int // per frame unwinding limit
	MaxSteps        int64
	MaxSplit        int // max values in a case split
	Known           map[string]KnownFinding
	Verbose         int
	MaxSamples      int
	StopOnViolation bool
	Deadline        time.Time
	Params          map[string]int64 // harness parameters (bounds)
}

type KnownFinding struct {
	ID       string   `json:"id"`
	Property string   `json:"property"`
	Status   string   `json:"status"` // "open" or "fixed:<commit>"
	What     string   `json:"what_fails"`
	Labels   []string `json:"labels"` // assertion labels / "panic:<function>" sites covered
}

type decision struct {
	idx     int
	payload int64
	seq     int // ordinal of the decide call within the step
}

type alt struct {
	cond    *Term
	payload int64
	known   bool // feasibility already established
}

type forkReq struct {
	alts   []alt
	prefix []decision
	what   string
	seq    int
}

// nextPre allocates the ordinal of a decide call within the current step and
// returns the pre-resolved decision for it, if any.
func (e *Engine) nextPre() (decision, bool, int) {
	k := e.decSeq
	e.decSeq++
	for _, d := range e.pre {
		if d.seq == k {
			e.preUsed++
			return d, true, k
		}
	}
	return decision{}, false, k
}

func (e *Engine) fork(what string, alts []alt, k int) {
	if e.inRoot {
		panic(fmt.Sprintf("symbolic decision during root initialisation: %s", what))
	}
	panic(&forkReq{alts: alts, prefix: append([]decision(nil), e.pre...), what: what, seq: k})
}

type pathAbort struct{ why string }

type choiceRec struct {
	name string
	val  int64
}

type regionRec struct {
	id   string
	cond *Term
}

type obsRec struct {
	name string
	val  Value
}

type pathState struct {
	pc        []*Term
	vars      []*Term
	choices   []choiceRec
	regions   []regionRec
	observes  []obsRec
	eqs       map[*Term]uint64
	lits      map[*Term]bool
	ufApps    map[string][][2]*Term
	varCount  map[string]int
	forks     int
	decisions []int
	imprecise bool
	locksHeld int
}

type pathSave struct {
	npc, nvars, nchoices, nregions, nobs, forks, ndec int
	imprecise                                         bool
	locksHeld                                         int
	nodeSeq, mapSeq                                   int
}

func (e *Engine) savePS() pathSave {
	p := &e.ps
	return pathSave{len(p.pc), len(p.vars), len(p.choices), len(p.regions), len(p.observes), p.forks, len(p.decisions), p.imprecise, p.locksHeld, e.nodeSeq, e.mapSeq}
}

func (e *Engine) restorePS(s pathSave) {
	p := &e.ps
	p.pc = p.pc[:s.npc]
	p.vars = p.vars[:s.nvars]
	p.choices = p.choices[:s.nchoices]
	p.regions = p.regions[:s.nregions]
	p.observes = p.observes[:s.nobs]
	p.forks = s.forks
	p.decisions = p.decisions[:s.ndec]
	p.imprecise = s.imprecise
	p.locksHeld = s.locksHeld
	e.nodeSeq = s.nodeSeq
	e.mapSeq = s.mapSeq
}

type Violation struct {
	Label   string            `json:"label"`
	Kind    string            `json:"kind"`
	Site    string            `json:"site"`
	Msg     string            `json:"msg"`
	Model   map[string]uint64 `json:"model"`
	Choices []string          `json:"choices"`
	Stack   string            `json:"stack"`
	Shard   int               `json:"shard"`
}

type PathSample struct {
	Choices []string          `json:"choices"`
	Model   map[string]uint64 `json:"model,omitempty"`
	Outcome string            `json:"outcome"`
	Forks   int               `json:"forks"`
	// Observed: the engine's prediction of every vsym.Observe value under
	// Model ("?" where an uninterpreted function is involved); compared with
	// the natively observed values.
	Observed []string `json:"observed,omitempty"`
}

type Results struct {
	Paths        int
	PathsNontriv int
	Forks        int
	Obligations  int
	Discharged   int
	Trivial      int
	Violations   []*Violation
	KnownSeen    map[string]int
	Reached      map[string]int
	Unsupported  map[string]int
	UnwindHits   int
	Inconclusive int
	InconcNotes  map[string]int
	AssumeFalse  int
	Samples      []PathSample
	Truncated    bool
	Steps        int64
	Outcomes     map[string]int
	ForkSites    map[string]int
}

func newResults() *Results {
	return &Results{KnownSeen: map[string]int{}, Reached: map[string]int{}, Unsupported: map[string]int{}, InconcNotes: map[string]int{}, Outcomes: map[string]int{}, ForkSites: map[string]int{}}
}

type Stats struct {
	SolverQueries int
	SolverTime    time.Duration
}

type snapshot struct {
	frames    []*Frame // per thread top frame (deep copy)
	thState   []Thread
	cur       int
	trailMark int
	ps        pathSave
	epoch     int
	raceOn    bool
}

func copyFrames(top *Frame) *Frame {
	if top == nil {
		return nil
	}
	var head, prev *Frame
	for fr := top; fr != nil; fr = fr.caller {
		c := *fr
		c.regs = append([]Value(nil), fr.regs...)
		if fr.defers != nil {
			c.defers = append([]deferRec(nil), fr.defers...)
		}
		c.caller = nil
		cp := &c
		if prev != nil {
			prev.caller = cp
		} else {
			head = cp
		}
		prev = cp
	}
	return head
}

func (e *Engine) snapshot() *snapshot {
	s := &snapshot{trailMark: len(e.trail), ps: e.savePS(), epoch: e.epoch, raceOn: e.raceOn}
	for i, th := range e.threads {
		s.frames = append(s.frames, copyFrames(th.top))
		s.thState = append(s.thState, *th)
		if th == e.th {
			s.cur = i
		}
	}
	return s
}

func (e *Engine) restore(s *snapshot) {
	e.undoTo(s.trailMark)
	e.restorePS(s.ps)
	e.threads = e.threads[:len(s.thState)]
	for i := range s.thState {
		th := e.threads[i]
		*th = s.thState[i]
		th.top = copyFrames(s.frames[i])
	}
	e.th = e.threads[s.cur]
	e.done = false
	e.outcome = ""
	e.raceOn = s.raceOn
}

// decide picks one of several alternatives; constant-false alternatives are
// dropped; a single remaining alternative is returned without forking.
func (e *Engine) decide(what string, alts []alt) (int, int64) {
	d, ok, k := e.nextPre()
	if ok {
		return d.idx, d.payload
	}
	return e.decideAt(what, alts, k)
}

func (e *Engine) decideAt(what string, alts []alt, k int) (int, int64) {
	live := 0
	for i := range alts {
		if alts[i].cond.IsFalse() {
			continue
		}
		if alts[i].cond.IsTrue() {
			return i, alts[i].payload
		}
		live++
	}
	if live == 0 {
		panic(&pathAbort{"infeasible:" + what})
	}
	e.fork(what, alts, k)
	return 0, 0
}

// branch decides a symbolic boolean.
func (e *Engine) branch(c *Term) bool {
	if c.op == OpConst {
		return c.c == 1
	}
	d, ok, k := e.nextPre()
	if ok {
		return d.idx == 0
	}
	if v, ok := e.litKnown(c); ok {
		return v
	}
	i, _ := e.decideAt("if", []alt{{cond: c}, {cond: e.tt.Not(c)}}, k)
	return i == 0
}

func (e *Engine) assumeTerm(c *Term) {
	if c.IsTrue() {
		return
	}
	e.ps.pc = append(e.ps.pc, c)
	e.sv.Assert(c)
	e.noteLit(c, true)
}

// litKnown looks a boolean term up among the literals already implied by the
// path condition (syntactically).
func (e *Engine) litKnown(c *Term) (bool, bool) {
	neg := false
	for c.op == OpNot {
		c = c.a[0]
		neg = !neg
	}
	v, ok := e.ps.lits[c]
	if !ok {
		return false, false
	}
	return v != neg, true
}

func (e *Engine) noteLit(c *Term, val bool) {
	for c.op == OpNot {
		c = c.a[0]
		val = !val
	}
	if c.op == OpConst {
		return
	}
	if val && c.op == OpAnd {
		e.noteLit(c.a[0], true)
		e.noteLit(c.a[1], true)
	} else if !val && c.op == OpOr {
		e.noteLit(c.a[0], false)
		e.noteLit(c.a[1], false)
	}
	if _, ok := e.ps.lits[c]; ok {
		return
	}
	e.ps.lits[c] = val
	e.trail = append(e.trail, trailEntry{fn: func() { delete(e.ps.lits, c) }})
}

func (e *Engine) shardSkip() bool {
	if e.cfg.NShards <= 1 {
		return false
	}
	if e.ps.forks != e.cfg.ShardDepth {
		return false
	}
	if e.cfg.Claims != nil {
		// every worker walks the same (canonically ordered) decision tree
		// down to the shard depth; whoever arrives first at a subtree takes it
		key := make([]byte, 0, 2*len(e.ps.decisions))
		for _, d := range e.ps.decisions {
			key = append(key, byte(d), byte(d>>8))
		}
		_, taken := e.cfg.Claims.LoadOrStore(string(key), e.cfg.Shard)
		return taken
	}
	h := fnv.New32a()
	for _, d := range e.ps.decisions {
		h.Write([]byte{byte(d), byte(d >> 8)})
	}
	return int(h.Sum32()%uint32(e.cfg.NShards)) != e.cfg.Shard
}

func (e *Engine) runUntilFork() (req *forkReq) {
	defer func() {
		if r := recover(); r != nil {
			switch x := r.(type) {
			case *forkReq:
				req = x
			case *pathAbort:
				e.undoStep()
				e.done = true
				e.outcome = x.why
			default:
				fmt.Fprintf(os.Stderr, "ENGINE PANIC: %v\n  at instr: %v\n%s", r, e.curInstr(), e.stackTrace(e.th))
				panic(r)
			}
		}
	}()
	for !e.done {
		e.step()
	}
	return nil
}

func (e *Engine) undoStep() {
	// nothing to undo for an aborted path; state is discarded by the caller's restore
}

func (e *Engine) explore() {
	for {
		if e.cfg.MaxPaths > 0 && e.res.Paths >= e.cfg.MaxPaths {
			e.res.Truncated = true
			return
		}
		if !e.cfg.Deadline.IsZero() && time.Now().After(e.cfg.Deadline) {
			e.res.Truncated = true
			return
		}
		req := e.runUntilFork()
		if req == nil {
			e.finishPath()
			return
		}
		// roll back partial effects of the interrupted step
		e.undoTo(e.stepMark)
		e.restorePS(e.stepPS)
		e.th = e.stepThread
		*e.stepTop = e.stepFr
		*e.th = e.stepTh
		e.th.top = e.stepTop
		e.threads = e.threads[:e.stepNThreads]
		e.raceOn = e.stepRaceOn
		e.pre, e.preUsed, e.decSeq = nil, 0, 0
		snap := e.snapshot()
		e.res.Forks++
		if e.cfg.Verbose > 0 {
			e.res.ForkSites[req.what+"@"+e.th.top.fi.name]++
		}
		// feasibility of alternatives
		nAlts := len(req.alts)
		feasible := make([]SatResult, nAlts)
		nUnsat := 0
		for i, a := range req.alts {
			if a.cond.IsFalse() {
				feasible[i] = Unsat
				nUnsat++
				continue
			}
			if a.known {
				feasible[i] = Sat
				continue
			}
			if i == nAlts-1 && nUnsat == nAlts-1 && !e.ps.imprecise {
				feasible[i] = Sat // pc is satisfiable and all others are not
				continue
			}
			r := e.sv.CheckWith(a.cond)
			feasible[i] = r
			if r == Unsat {
				nUnsat++
			}
		}
		for i, a := range req.alts {
			if feasible[i] == Unsat {
				continue
			}
			e.sv.Push()
			e.epoch++
			e.ps.forks++
			e.ps.decisions = append(e.ps.decisions, i)
			if feasible[i] == Unknown {
				e.ps.imprecise = true
				e.res.Inconclusive++
				where := ""
				if e.th != nil && e.th.top != nil {
					where = "@" + e.th.top.fi.name
				}
				e.res.InconcNotes["solver-unknown-at-branch:"+req.what+where]++
			}
			e.assumeTerm(a.cond)
			if !e.shardSkip() {
				e.pre = append(append([]decision(nil), req.prefix...), decision{i, a.payload, req.seq})
				e.preUsed, e.decSeq = 0, 0
				e.explore()
			}
			e.sv.Pop()
			e.restore(snap)
			e.pre, e.preUsed, e.decSeq = nil, 0, 0
			if e.res.Truncated || (e.cfg.StopOnViolation && len(e.res.Violations) > 0) {
				return
			}
		}
		return
	}
}

// ownsShortPath: paths that end above the shard depth are seen by every
// worker; only shard 0 reports them.
func (e *Engine) ownsPath() bool {
	if e.cfg.NShards <= 1 {
		return true
	}
	if e.ps.forks >= e.cfg.ShardDepth {
		return true
	}
	return e.cfg.Shard == 0
}

func (e *Engine) choiceStrings() []string {
	r := make([]string, len(e.ps.choices))
	for i, c := range e.ps.choices {
		r[i] = fmt.Sprintf("%s=%d", c.name, c.val)
	}
	return r
}

func (e *Engine) currentModel() map[string]uint64 {
	return e.sv.Model(e.ps.vars)
}

func (e *Engine) regionsFor(label string) []regionRec {
	var r []regionRec
	for _, rg := range e.ps.regions {
		kf, ok := e.cfg.Known[rg.id]
		if !ok || kf.Status != "open" {
			continue
		}
		for _, l := range kf.Labels {
			if l == label || (strings.HasSuffix(l, "*") && strings.HasPrefix(label, l[:len(l)-1])) {
				r = append(r, rg)
				break
			}
		}
	}
	return r
}

func (e *Engine) recordViolation(v *Violation) {
	v.Shard = e.cfg.Shard
	v.Choices = e.choiceStrings()
	for _, o := range e.ps.observes {
		v.Msg += fmt.Sprintf("\n      observe %s = %s", o.name, e.deepString(o.val, 0))
	}
	e.res.Violations = append(e.res.Violations, v)
	if e.cfg.Verbose > 0 {
		fmt.Fprintf(os.Stderr, "[shard %d] violation %s %s at %s: %s\n", e.cfg.Shard, v.Kind, v.Label, v.Site, v.Msg)
	}
}

// obligation checks that cond holds on every extension of the current path.
func (e *Engine) obligation(label, kind, site, msg string, cond *Term) {
	if !e.ownsPath() {
		e.assumeTerm(cond)
		return
	}
	e.res.Obligations++
	if cond.IsTrue() {
		e.res.Discharged++
		e.res.Trivial++
		return
	}
	regs := e.regionsFor(label)
	ncond := e.tt.Not(cond)
	e.sv.Push()
	e.sv.Assert(ncond)
	if len(regs) > 0 {
		e.sv.Push()
		for _, rg := range regs {
			e.sv.Assert(e.tt.Not(rg.cond))
		}
	}
	r := e.sv.Check()
	switch r {
	case Sat:
		m := e.currentModel()
		e.recordViolation(&Violation{Label: label, Kind: kind, Site: site, Msg: msg, Model: m, Stack: e.stackTrace(e.th)})
	case Unknown:
		e.res.Inconclusive++
		e.res.InconcNotes["solver-unknown-at-obligation:"+label]++
	}
	if len(regs) > 0 {
		e.sv.Pop()
		if r == Unsat {
			// does it fail inside a known region?
			any := false
			for _, rg := range regs {
				e.sv.Push()
				e.sv.Assert(rg.cond)
				rr := e.sv.Check()
				e.sv.Pop()
				if rr == Sat {
					e.res.KnownSeen[rg.id]++
					any = true
				} else if rr == Unknown {
					e.res.Inconclusive++
					e.res.InconcNotes["solver-unknown-at-known-region:"+rg.id]++
				}
			}
			if !any {
				e.res.Discharged++
			}
		}
	} else if r == Unsat {
		e.res.Discharged++
	}
	e.sv.Pop()
	// continue under the assumption that the obligation holds
	if cond.IsFalse() {
		panic(&pathAbort{"obligation-false:" + label})
	}
	if e.sv.CheckWith(cond) == Unsat {
		panic(&pathAbort{"obligation-false:" + label})
	}
	e.assumeTerm(cond)
}

// pathFailure reports a failure that holds on the whole current path (an
// uncaught panic, wedged lock, ...).
func (e *Engine) pathFailure(label, kind, site, msg string) {
	if !e.ownsPath() {
		return
	}
	e.res.Obligations++
	regs := e.regionsFor(label)
	if len(regs) == 0 {
		e.sv.Push()
		r := e.sv.Check()
		if r != Unsat {
			m := e.currentModel()
			e.recordViolation(&Violation{Label: label, Kind: kind, Site: site, Msg: msg, Model: m, Stack: e.stackTrace(e.th)})
		}
		e.sv.Pop()
		return
	}
	e.sv.Push()
	for _, rg := range regs {
		e.sv.Assert(e.tt.Not(rg.cond))
	}
	r := e.sv.Check()
	if r == Sat {
		m := e.currentModel()
		e.recordViolation(&Violation{Label: label, Kind: kind, Site: site, Msg: msg, Model: m, Stack: e.stackTrace(e.th)})
	} else if r == Unknown {
		e.res.Inconclusive++
		e.res.InconcNotes["solver-unknown-at-path-failure:"+label]++
	}
	e.sv.Pop()
	if r == Unsat {
		for _, rg := range regs {
			if e.sv.CheckWith(rg.cond) == Sat {
				e.res.KnownSeen[rg.id]++
			}
		}
	}
}

func (e *Engine) finishPath() {
	if !e.ownsPath() {
		return
	}
	e.res.Paths++
	if e.ps.forks > 0 {
		e.res.PathsNontriv++
	}
	out := e.outcome
	if out == "" {
		out = "ok"
	}
	th := e.threads[0]
	for _, t := range e.threads {
		if t.panicking {
			th = t
		}
	}
	if th.panicking && e.outcome == "panic" {
		site := th.panicSite
		label := "panic:" + site
		e.pathFailure(label, "panic", site, "uncaught panic: "+e.valueBrief(th.panicVal))
		out = "panic@" + site
	} else if strings.HasPrefix(e.outcome, "unsupported:") {
		e.res.Unsupported[e.outcome[len("unsupported:"):]]++
	} else if e.outcome == "unwind" {
		e.res.UnwindHits++
		// a loop that does not end within the unwinding limit may be an
		// endless loop: a candidate the native replay decides (it hangs, or
		// the bound was too small)
		e.pathFailure("unwind:"+e.unwindFn, "hang", e.unwindFn, "loop exceeded the unwinding limit: possibly endless")
	} else if e.outcome == "ok" || e.outcome == "" {
		if e.ps.locksHeld != 0 {
			e.pathFailure("wedged-lock", "lock", "harness-exit", fmt.Sprintf("%d lock(s) still held when the harness returned", e.ps.locksHeld))
		}
	}
	key := out
	if i := strings.IndexByte(key, ':'); i > 0 && !strings.HasPrefix(key, "panic") {
		key = key[:i]
	}
	e.res.Outcomes[key]++
	if len(e.res.Samples) < e.cfg.MaxSamples {
		s := PathSample{Choices: e.choiceStrings(), Outcome: out, Forks: e.ps.forks}
		if e.sv.Check() == Sat {
			s.Model = e.currentModel()
			cache := map[*Term]uint64{}
			for _, o := range e.ps.observes {
				s.Observed = append(s.Observed, o.name+"="+e.renderUnder(o.val, s.Model, cache, 0))
			}
		}
		e.res.Samples = append(e.res.Samples, s)
	}
	if e.cfg.Verbose > 1 {
		fmt.Fprintf(os.Stderr, "[shard %d] path %d done: %s forks=%d choices=%v\n", e.cfg.Shard, e.res.Paths, out, e.ps.forks, e.choiceStrings())
	}
}

func (e *Engine) valueBrief(v Value) string {
	if ifc, ok := v.O.(*Iface); ok {
		if s, ok := ifc.v.O.(*Str); ok {
			return s.String()
		}
		return ifc.t.String() + " " + ifc.v.String()
	}
	return v.String()
}

func mergeResults(all []*Results) *Results {
	r := newResults()
	seen := map[string]bool{}
	for _, x := range all {
		r.Paths += x.Paths
		r.PathsNontriv += x.PathsNontriv
		r.Forks += x.Forks
		r.Obligations += x.Obligations
		r.Discharged += x.Discharged
		r.Trivial += x.Trivial
		r.UnwindHits += x.UnwindHits
		r.Inconclusive += x.Inconclusive
		r.AssumeFalse += x.AssumeFalse
		r.Steps += x.Steps
		r.Truncated = r.Truncated || x.Truncated
		for _, v := range x.Violations {
			k := v.Kind + "|" + v.Label + "|" + v.Site
			if seen[k] {
				continue
			}
			seen[k] = true
			r.Violations = append(r.Violations, v)
		}
		for k, n := range x.KnownSeen {
			r.KnownSeen[k] += n
		}
		for k, n := range x.Reached {
			r.Reached[k] += n
		}
		for k, n := range x.Unsupported {
			r.Unsupported[k] += n
		}
		for k, n := range x.InconcNotes {
			r.InconcNotes[k] += n
		}
		for k, n := range x.Outcomes {
			r.Outcomes[k] += n
		}
		for k, n := range x.ForkSites {
			r.ForkSites[k] += n
		}
		for _, s := range x.Samples {
			if len(r.Samples) < 12 {
				r.Samples = append(r.Samples, s)
			}
		}
	}
	sort.Slice(r.Violations, func(i, j int) bool { return r.Violations[i].Label < r.Violations[j].Label })
	return r
}

func (e *Engine) curInstr() string {
	if e.th == nil || e.th.top == nil {
		return "?"
	}
	fr := e.th.top
	if fr.blk < len(fr.fi.blocks) && fr.ip < len(fr.fi.blocks[fr.blk]) {
		ins := fr.fi.blocks[fr.blk][fr.ip].ins
		return fmt.Sprintf("%T %v", ins, ins)
	}
	return "?"
}

func (e *Engine) deepString(v Value, d int) string {
	if d > 3 {
		return "..."
	}
	switch o := v.O.(type) {
	case *Iface:
		return e.deepString(o.v, d)
	case *Slice:
		var sb strings.Builder
		sb.WriteString("[")
		for i := 0; i < o.len && i < 16; i++ {
			if i > 0 {
				sb.WriteString(" ")
			}
			sb.WriteString(e.deepString(e.arrGet(o.arr, o.off+i), d+1))
		}
		sb.WriteString("]")
		return sb.String()
	}
	return v.String()
}

// renderUnder renders a value under a model in the canonical form shared with
// the native vsym.Observe: integers in decimal, bools, strings quoted, byte
// slices in hex, other slices and structs element-wise.
func (e *Engine) renderUnder(v Value, model map[string]uint64, cache map[*Term]uint64, depth int) string {
	if depth > 4 {
		return "..."
	}
	scalar := func(x Value) (uint64, bool) {
		if x.T == nil {
			return x.N, true
		}
		return e.tt.Eval(x.T, model, cache)
	}
	switch o := v.O.(type) {
	case nil:
		n, ok := scalar(v)
		if !ok {
			return "?"
		}
		return fmt.Sprintf("%d", n)
	case *Iface:
		si := e.scalar(o.t)
		switch si.kind {
		case 1:
			n, ok := scalar(o.v)
			if !ok {
				return "?"
			}
			if n != 0 {
				return "true"
			}
			return "false"
		case 2:
			n, ok := scalar(o.v)
			if !ok {
				return "?"
			}
			if si.signed {
				return fmt.Sprintf("%d", sext64(n, si.w))
			}
			return fmt.Sprintf("%d", n)
		case 4:
			if o.v.O == nil {
				return `""`
			}
			return e.renderUnder(o.v, model, cache, depth)
		}
		if st, ok := o.t.Underlying().(*types.Slice); ok {
			sl := o.v.slice()
			if esi := e.scalar(st.Elem()); esi.kind == 2 && esi.w == 8 {
				out := "x"
				for i := 0; i < sl.len; i++ {
					n, ok := scalar(sl.arr.flat[sl.off+i])
					if !ok {
						return "?"
					}
					out += fmt.Sprintf("%02x", n)
				}
				return out
			}
			out := "["
			for i := 0; i < sl.len; i++ {
				if i > 0 {
					out += " "
				}
				el := e.arrGet(sl.arr, sl.off+i)
				out += e.renderUnder(Value{O: &Iface{t: st.Elem(), v: el}}, model, cache, depth+1)
			}
			return out + "]"
		}
		return "{" + types.TypeString(o.t, nil) + "}"
	case *Str:
		if o.b == nil {
			return fmt.Sprintf("%q", o.s)
		}
		buf := make([]byte, len(o.b))
		for i, b := range o.b {
			n, ok := scalar(b)
			if !ok {
				return "?"
			}
			buf[i] = byte(n)
		}
		return fmt.Sprintf("%q", string(buf))
	}
	return "{?}"
}
