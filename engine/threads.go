package main

// Thread mode (C07): cooperative threads scheduled at synchronisation points
// with every choice a forked decision, vector-clock happens-before race
// detection over heap accesses made by interpreted code.

import (
	"fmt"
	"strings"
)

const maxThreads = 4

type retrySignal struct{}

type vclock [maxThreads]int

func (a vclock) join(b vclock) vclock {
	for i := range a {
		if b[i] > a[i] {
			a[i] = b[i]
		}
	}
	return a
}

type locKey struct {
	n *Node
	i int
	m *MapObj
}

type accInfo struct {
	wT, wC int
	wSite  string
	rC     [maxThreads]int
	rSite  [maxThreads]string
}

type raceState struct {
	acc   map[locKey]accInfo
	locks map[*Node]vclock
}

func (e *Engine) liveThreads() int {
	n := 0
	for _, t := range e.threads {
		if !t.done {
			n++
		}
	}
	return n
}

func (e *Engine) multi() bool { return len(e.threads) > 1 && e.liveThreads() > 1 }

func (e *Engine) setLockVC(n *Node, vc vclock) {
	old, had := e.race.locks[n]
	e.race.locks[n] = vc
	e.trail = append(e.trail, trailEntry{fn: func() {
		if had {
			e.race.locks[n] = old
		} else {
			delete(e.race.locks, n)
		}
	}})
}

// runnable reports whether t can make progress now.
func (e *Engine) runnable(t *Thread) bool {
	if t.done {
		return false
	}
	if t.waitJoin {
		for _, o := range e.threads {
			if o != t && !o.done {
				return false
			}
		}
		return true
	}
	if t.blockedOn != nil {
		return e.lockFree(t.blockedOn, t.blockedKind)
	}
	return true
}

// lock kinds: 0 mutex, 1 rwmutex write, 2 rwmutex read
func (e *Engine) lockFree(st *Node, kind int) bool {
	switch kind {
	case 0:
		return st.v.N == 0
	case 1:
		return st.kids[0].kids[0].v.N == 0 && rwReaders(st).v.N == 0
	default:
		return st.kids[0].kids[0].v.N == 0
	}
}

func rwReaders(rw *Node) *Node {
	// RWMutex{w Mutex; writerSem, readerSem uint32; readerCount atomic.Int32; readerWait atomic.Int32}
	n := rw.kids[3]
	for n.kind == nkStruct {
		n = n.kids[len(n.kids)-1]
	}
	return n
}

// pickThread chooses the next thread to run among the runnable ones (forked).
func (e *Engine) pickThread(what string) *Thread {
	var cands []*Thread
	for _, t := range e.threads {
		if e.runnable(t) {
			cands = append(cands, t)
		}
	}
	if len(cands) == 0 {
		e.pathFailure("deadlock", "lock", what, "no runnable thread: every live thread is blocked")
		panic(&pathAbort{"deadlock"})
	}
	if len(cands) == 1 {
		return cands[0]
	}
	t := e.freshVar("sched", 64)
	x, ok := e.splitInt2("sched", Value{T: t}, scalarInfo{64, true, 2}, 0, int64(len(cands))-1, true)
	if !ok {
		panic(&pathAbort{"sched-out-of-range"})
	}
	e.ps.choices = append(e.ps.choices, choiceRec{"sched", int64(cands[x].id)})
	return cands[x]
}

// schedPoint is called by a thread about to perform a synchronising
// operation. It returns normally when the thread may proceed; otherwise it
// switches to another thread and unwinds so that the operation is retried
// when the thread is scheduled again.
func (e *Engine) schedPoint(what string) {
	th := e.th
	if th.resumed {
		th.resumed = false
		return
	}
	if !e.multi() {
		return
	}
	if what != "yield" && e.cfg.Params["schedrepo"] == 1 {
		// coarse mode: only lock acquisitions written in the repository's own
		// code are scheduling points; a library's internal locking (afero's
		// MemMapFs, the bbolt model) makes each of its calls one atomic step
		if fr := th.top; fr != nil && (!fr.fi.isRepo || fr.fi.harness == 2) {
			return
		}
	}
	next := e.pickThread(what)
	if next == th {
		return
	}
	th.resumed = true
	e.switchTo(next)
	panic(retrySignal{})
}

func (e *Engine) switchTo(t *Thread) {
	e.th = t
}

// blockOn parks the current thread on a lock and runs somebody else.
func (e *Engine) blockOn(st *Node, kind int, what string) {
	th := e.th
	th.blockedOn, th.blockedKind = st, kind
	th.resumed = false
	next := e.pickThread(what)
	if next == th {
		// cannot happen: th is not runnable
		e.pathFailure("deadlock", "lock", what, "thread blocked on a lock nobody can release")
		panic(&pathAbort{"deadlock"})
	}
	e.switchTo(next)
	panic(retrySignal{})
}

func (e *Engine) spawn(callee Value, args []Value) {
	if len(e.threads) >= maxThreads {
		e.unsupported("more than 4 threads")
	}
	parent := e.th
	t := &Thread{id: len(e.threads)}
	t.vc = parent.vc
	t.vc[t.id] = 1
	parent.vc[parent.id]++
	e.threads = append(e.threads, t)
	save, savePend := e.th, e.pendingAdv
	e.th = t
	e.pendingAdv = nil
	e.invoke(t, callee, args, -1, false, nil)
	e.th, e.pendingAdv = save, savePend
	if t.top == nil {
		t.done = true // the body was an intrinsic/builtin
	}
}

// threadExited is called when a thread's last frame returned.
func (e *Engine) threadExited(th *Thread) {
	if th == e.threads[0] {
		e.done = true
		if e.outcome == "" {
			e.outcome = "ok"
		}
		return
	}
	// somebody else has to run now
	e.switchTo(e.pickThread("thread-exit"))
}

// ---- race detection ----

func (e *Engine) siteName() string {
	if e.th != nil && e.th.top != nil {
		return e.th.top.fi.name
	}
	return "?"
}

func (e *Engine) setAcc(k locKey, a accInfo) {
	old, had := e.race.acc[k]
	e.race.acc[k] = a
	e.trail = append(e.trail, trailEntry{fn: func() {
		if had {
			e.race.acc[k] = old
		} else {
			delete(e.race.acc, k)
		}
	}})
}

func (e *Engine) reportRace(kind string, k locKey, otherSite string) {
	site := e.siteName()
	key := site + " / " + otherSite
	if e.racesSeen[key] {
		return
	}
	e.racesSeen[key] = true
	e.pathFailure("race:"+site, "race", site, fmt.Sprintf("data race (%s): %s is not ordered with an access in %s", kind, site, otherSite))
}

// harnessSite: accesses made by harness and stub code (shared recorder tables
// and the like) are not accesses of the code under test.
func (e *Engine) harnessSite() bool {
	if e.th == nil || e.th.top == nil {
		return true
	}
	fi := e.th.top.fi
	if fi.harness == 0 {
		fi.harness = 1
		n := fi.name
		if strings.Contains(n, "/internal/vstub") || strings.Contains(n, "/internal/vharn") || strings.Contains(n, "/internal/vsym") {
			fi.harness = 2
		}
	}
	return fi.harness == 2
}

// atomicSync makes an atomic operation on location k a synchronisation point
// (acquire and release on a per-location clock) instead of a data access.
func (e *Engine) atomicSync(addr Value) {
	if !e.raceOn {
		return
	}
	p, ok := addr.O.(Ptr)
	if !ok {
		return
	}
	n := p.n
	th := e.th
	if vc, ok := e.race.locks[n]; ok {
		th.vc = th.vc.join(vc)
	}
	e.setLockVC(n, th.vc)
	th.vc[th.id]++
}

func (e *Engine) rawLoad(addr Value) Value {
	save := e.raceOn
	e.raceOn = false
	v := e.loadVia(addr)
	e.raceOn = save
	return v
}

func (e *Engine) rawStore(addr, v Value) {
	save := e.raceOn
	e.raceOn = false
	e.storeVia(addr, v)
	e.raceOn = save
}

func (e *Engine) noteRead(k locKey) {
	if e.harnessSite() {
		return
	}
	th := e.th
	a := e.race.acc[k]
	if a.wC > 0 && a.wT != th.id && a.wC > th.vc[a.wT] {
		e.reportRace("read after write", k, a.wSite)
	}
	if a.rC[th.id] == th.vc[th.id] {
		return
	}
	a.rC[th.id] = th.vc[th.id]
	a.rSite[th.id] = e.siteName()
	e.setAcc(k, a)
}

func (e *Engine) noteWrite(k locKey) {
	if e.harnessSite() {
		return
	}
	th := e.th
	a := e.race.acc[k]
	if a.wC > 0 && a.wT != th.id && a.wC > th.vc[a.wT] {
		e.reportRace("write after write", k, a.wSite)
	}
	for u := 0; u < maxThreads; u++ {
		if u != th.id && a.rC[u] > th.vc[u] {
			e.reportRace("write after read", k, a.rSite[u])
		}
	}
	a.wT, a.wC, a.wSite = th.id, th.vc[th.id], e.siteName()
	e.setAcc(k, a)
}

func (e *Engine) raceRead(p Ptr) {
	if p.idx >= 0 {
		e.noteRead(locKey{n: p.n, i: p.idx})
		return
	}
	e.raceNode(p.n, false)
}

func (e *Engine) raceWrite(p Ptr) {
	if p.idx >= 0 {
		e.noteWrite(locKey{n: p.n, i: p.idx})
		return
	}
	e.raceNode(p.n, true)
}

func (e *Engine) raceNode(n *Node, write bool) {
	switch n.kind {
	case nkLeaf:
		if write {
			e.noteWrite(locKey{n: n, i: -1})
		} else {
			e.noteRead(locKey{n: n, i: -1})
		}
	case nkStruct, nkArrKids:
		for _, k := range n.kids {
			e.raceNode(k, write)
		}
	default:
		// flat arrays accessed as a whole: one summary location
		if write {
			e.noteWrite(locKey{n: n, i: -2})
		} else {
			e.noteRead(locKey{n: n, i: -2})
		}
	}
}
