package main

// Term layer: hash-consed SMT terms over Bool and fixed-width bit-vectors with
// aggressive simplification, an SMT-LIB2 printer and a native evaluator.

import (
	"fmt"
	"math/bits"
	"strings"
)

type Op uint8

const (
	OpConst Op = iota
	OpVar
	OpNot
	OpAnd
	OpOr
	OpEq
	OpIte
	OpAdd
	OpSub
	OpMul
	OpUDiv
	OpSDiv
	OpURem
	OpSRem
	OpBAnd
	OpBOr
	OpBXor
	OpBNot
	OpNeg
	OpShl
	OpLshr
	OpAshr
	OpUlt
	OpUle
	OpSlt
	OpSle
	OpExtract // c = hi<<16|lo
	OpConcat
	OpZext
	OpSext
	OpUF // name, single arg (or none); result width w
)

var opNames = [...]string{"const", "var", "not", "and", "or", "=", "ite", "bvadd", "bvsub", "bvmul", "bvudiv", "bvsdiv", "bvurem", "bvsrem",
	"bvand", "bvor", "bvxor", "bvnot", "bvneg", "bvshl", "bvlshr", "bvashr", "bvult", "bvule", "bvslt", "bvsle", "extract", "concat", "zext", "sext", "uf"}

// Term is an immutable node. w==0 means Bool; otherwise a bit-vector of width w.
// Only widths <= 64 carry constants; wider vectors only arise as UF arguments.
type Term struct {
	op   Op
	w    uint16
	c    uint64
	name string
	a    [3]*Term
	id   int
	big  []byte // constant wider than 64 bits (big-endian bytes), only for OpConst with w>64
}

type termKey struct {
	op         Op
	w          uint16
	c          uint64
	name       string
	a0, a1, a2 *Term
}

type TermTable struct {
	m      map[termKey]*Term
	nextID int
	tTrue  *Term
	tFalse *Term
	ufs    map[string][2]int // name -> (argwidth, reswidth)
}

func NewTermTable() *TermTable {
	tt := &TermTable{m: map[termKey]*Term{}, ufs: map[string][2]int{}}
	tt.tTrue = tt.mk(OpConst, 0, 1, "", nil, nil, nil)
	tt.tFalse = tt.mk(OpConst, 0, 0, "", nil, nil, nil)
	return tt
}

func (tt *TermTable) mk(op Op, w uint16, c uint64, name string, a0, a1, a2 *Term) *Term {
	k := termKey{op, w, c, name, a0, a1, a2}
	if t, ok := tt.m[k]; ok {
		return t
	}
	tt.nextID++
	t := &Term{op: op, w: w, c: c, name: name, a: [3]*Term{a0, a1, a2}, id: tt.nextID}
	tt.m[k] = t
	return t
}

func mask(w uint16) uint64 {
	if w >= 64 {
		return ^uint64(0)
	}
	return (uint64(1) << w) - 1
}

func sext64(v uint64, w uint16) int64 {
	if w >= 64 {
		return int64(v)
	}
	sh := 64 - uint(w)
	return int64(v<<sh) >> sh
}

func (t *Term) IsConst() bool { return t.op == OpConst }
func (t *Term) IsTrue() bool  { return t.op == OpConst && t.w == 0 && t.c == 1 }
func (t *Term) IsFalse() bool { return t.op == OpConst && t.w == 0 && t.c == 0 }

func (tt *TermTable) Bool(b bool) *Term {
	if b {
		return tt.tTrue
	}
	return tt.tFalse
}

func (tt *TermTable) Const(v uint64, w uint16) *Term {
	if w == 0 {
		return tt.Bool(v != 0)
	}
	if w > 64 {
		panic("Const: width > 64")
	}
	return tt.mk(OpConst, w, v&mask(w), "", nil, nil, nil)
}

func (tt *TermTable) BigConst(b []byte) *Term {
	w := uint16(len(b) * 8)
	if w <= 64 {
		var v uint64
		for _, x := range b {
			v = v<<8 | uint64(x)
		}
		return tt.Const(v, w)
	}
	t := tt.mk(OpConst, w, 0, "big:"+string(b), nil, nil, nil)
	t.big = append([]byte(nil), b...)
	return t
}

func (tt *TermTable) Var(name string, w uint16) *Term {
	return tt.mk(OpVar, w, 0, name, nil, nil, nil)
}

func (tt *TermTable) Not(a *Term) *Term {
	if a.op == OpConst {
		return tt.Bool(a.c == 0)
	}
	if a.op == OpNot {
		return a.a[0]
	}
	return tt.mk(OpNot, 0, 0, "", a, nil, nil)
}

func (tt *TermTable) And(a, b *Term) *Term {
	if a.op == OpConst {
		if a.c == 0 {
			return a
		}
		return b
	}
	if b.op == OpConst {
		if b.c == 0 {
			return b
		}
		return a
	}
	if a == b {
		return a
	}
	if (a.op == OpNot && a.a[0] == b) || (b.op == OpNot && b.a[0] == a) {
		return tt.tFalse
	}
	if a.id > b.id {
		a, b = b, a
	}
	return tt.mk(OpAnd, 0, 0, "", a, b, nil)
}

func (tt *TermTable) Or(a, b *Term) *Term {
	if a.op == OpConst {
		if a.c == 1 {
			return a
		}
		return b
	}
	if b.op == OpConst {
		if b.c == 1 {
			return b
		}
		return a
	}
	if a == b {
		return a
	}
	if (a.op == OpNot && a.a[0] == b) || (b.op == OpNot && b.a[0] == a) {
		return tt.tTrue
	}
	if a.id > b.id {
		a, b = b, a
	}
	return tt.mk(OpOr, 0, 0, "", a, b, nil)
}

func (tt *TermTable) Ite(c, a, b *Term) *Term {
	if c.op == OpConst {
		if c.c == 1 {
			return a
		}
		return b
	}
	if a == b {
		return a
	}
	if a.w != b.w {
		panic(fmt.Sprintf("Ite width mismatch %d %d", a.w, b.w))
	}
	if a.w == 0 {
		if a.op == OpConst && b.op == OpConst {
			if a.c == 1 { // ite(c,true,false)
				return c
			}
			return tt.Not(c)
		}
		if a.op == OpConst {
			if a.c == 1 {
				return tt.Or(c, b)
			}
			return tt.And(tt.Not(c), b)
		}
		if b.op == OpConst {
			if b.c == 1 {
				return tt.Or(tt.Not(c), a)
			}
			return tt.And(c, a)
		}
	}
	if c.op == OpNot {
		return tt.Ite(c.a[0], b, a)
	}
	return tt.mk(OpIte, a.w, 0, "", c, a, b)
}

func (tt *TermTable) Eq(a, b *Term) *Term {
	if a == b {
		return tt.tTrue
	}
	if a.w != b.w {
		panic(fmt.Sprintf("Eq width mismatch %d %d (%s, %s)", a.w, b.w, a, b))
	}
	if a.op == OpConst && b.op == OpConst {
		if a.w > 64 {
			return tt.Bool(string(a.big) == string(b.big))
		}
		return tt.Bool(a.c == b.c)
	}
	if a.w == 0 {
		if a.op == OpConst {
			if a.c == 1 {
				return b
			}
			return tt.Not(b)
		}
		if b.op == OpConst {
			if b.c == 1 {
				return a
			}
			return tt.Not(a)
		}
	}
	// push equality with a constant through ite with a constant arm
	if b.op == OpConst && a.op == OpIte && (a.a[1].op == OpConst || a.a[2].op == OpConst) {
		return tt.Ite(a.a[0], tt.Eq(a.a[1], b), tt.Eq(a.a[2], b))
	}
	if a.op == OpConst && b.op == OpIte && (b.a[1].op == OpConst || b.a[2].op == OpConst) {
		return tt.Ite(b.a[0], tt.Eq(b.a[1], a), tt.Eq(b.a[2], a))
	}
	// zext(x) == const
	if b.op == OpConst && a.op == OpZext {
		iw := a.a[0].w
		if b.c&^mask(iw) != 0 {
			return tt.tFalse
		}
		return tt.Eq(a.a[0], tt.Const(b.c, iw))
	}
	if a.op == OpConst && b.op == OpZext {
		return tt.Eq(b, a)
	}
	if a.id > b.id {
		a, b = b, a
	}
	return tt.mk(OpEq, 0, 0, "", a, b, nil)
}

func (tt *TermTable) bin(op Op, a, b *Term) *Term {
	if a.w != b.w {
		panic(fmt.Sprintf("%s width mismatch %d %d", opNames[op], a.w, b.w))
	}
	w := a.w
	if a.op == OpConst && b.op == OpConst && w <= 64 {
		x, y := a.c, b.c
		m := mask(w)
		switch op {
		case OpAdd:
			return tt.Const(x+y, w)
		case OpSub:
			return tt.Const(x-y, w)
		case OpMul:
			return tt.Const(x*y, w)
		case OpUDiv:
			if y == 0 {
				return tt.Const(m, w)
			}
			return tt.Const(x/y, w)
		case OpURem:
			if y == 0 {
				return tt.Const(x, w)
			}
			return tt.Const(x%y, w)
		case OpSDiv:
			sx, sy := sext64(x, w), sext64(y, w)
			if sy == 0 {
				if sx < 0 {
					return tt.Const(1, w)
				}
				return tt.Const(m, w)
			}
			if sy == -1 {
				return tt.Const(uint64(-sx), w)
			}
			return tt.Const(uint64(sx/sy), w)
		case OpSRem:
			sx, sy := sext64(x, w), sext64(y, w)
			if sy == 0 {
				return tt.Const(x, w)
			}
			if sy == -1 {
				return tt.Const(0, w)
			}
			return tt.Const(uint64(sx%sy), w)
		case OpBAnd:
			return tt.Const(x&y, w)
		case OpBOr:
			return tt.Const(x|y, w)
		case OpBXor:
			return tt.Const(x^y, w)
		case OpShl:
			if y >= uint64(w) {
				return tt.Const(0, w)
			}
			return tt.Const(x<<y, w)
		case OpLshr:
			if y >= uint64(w) {
				return tt.Const(0, w)
			}
			return tt.Const(x>>y, w)
		case OpAshr:
			sx := sext64(x, w)
			if y >= uint64(w) {
				y = uint64(w) - 1
			}
			return tt.Const(uint64(sx>>y), w)
		}
	}
	// algebraic identities
	switch op {
	case OpAdd:
		if a.op == OpConst && a.c == 0 {
			return b
		}
		if b.op == OpConst && b.c == 0 {
			return a
		}
		// (x + c1) + c2
		if b.op == OpConst && a.op == OpAdd && a.a[1].op == OpConst {
			return tt.bin(OpAdd, a.a[0], tt.Const(a.a[1].c+b.c, w))
		}
		if a.op == OpConst { // canonical: constant on the right
			a, b = b, a
		}
	case OpSub:
		if b.op == OpConst && b.c == 0 {
			return a
		}
		if a == b {
			return tt.Const(0, w)
		}
		if b.op == OpConst {
			return tt.bin(OpAdd, a, tt.Const(-b.c, w))
		}
	case OpMul:
		if a.op == OpConst {
			a, b = b, a
		}
		if b.op == OpConst {
			if b.c == 0 {
				return b
			}
			if b.c == 1 {
				return a
			}
		}
	case OpBAnd:
		if a.op == OpConst {
			a, b = b, a
		}
		if b.op == OpConst {
			if b.c == 0 {
				return b
			}
			if b.c == mask(w) {
				return a
			}
		}
		if a == b {
			return a
		}
	case OpBOr:
		// (x >> c) << c | x & (2^c-1)  ==  x
		if r := tt.splitJoin(a, b); r != nil {
			return r
		}
		if r := tt.splitJoin(b, a); r != nil {
			return r
		}
		if a.op == OpConst {
			a, b = b, a
		}
		if b.op == OpConst {
			if b.c == 0 {
				return a
			}
			if b.c == mask(w) {
				return b
			}
		}
		if a == b {
			return a
		}
	case OpBXor:
		if a.op == OpConst {
			a, b = b, a
		}
		if b.op == OpConst && b.c == 0 {
			return a
		}
		if a == b {
			return tt.Const(0, w)
		}
	case OpShl, OpLshr, OpAshr:
		if b.op == OpConst && b.c == 0 {
			return a
		}
		if a.op == OpConst && a.c == 0 {
			return a
		}
	case OpUDiv, OpSDiv:
		if b.op == OpConst && b.c == 1 {
			return a
		}
	}
	return tt.mk(op, w, 0, "", a, b, nil)
}

func (tt *TermTable) Add(a, b *Term) *Term  { return tt.bin(OpAdd, a, b) }
func (tt *TermTable) Sub(a, b *Term) *Term  { return tt.bin(OpSub, a, b) }
func (tt *TermTable) Mul(a, b *Term) *Term  { return tt.bin(OpMul, a, b) }
func (tt *TermTable) BAnd(a, b *Term) *Term { return tt.bin(OpBAnd, a, b) }
func (tt *TermTable) BOr(a, b *Term) *Term  { return tt.bin(OpBOr, a, b) }
func (tt *TermTable) BXor(a, b *Term) *Term { return tt.bin(OpBXor, a, b) }

func (tt *TermTable) BNot(a *Term) *Term {
	if a.op == OpConst {
		return tt.Const(^a.c, a.w)
	}
	if a.op == OpBNot {
		return a.a[0]
	}
	return tt.mk(OpBNot, a.w, 0, "", a, nil, nil)
}

func (tt *TermTable) Neg(a *Term) *Term {
	if a.op == OpConst {
		return tt.Const(-a.c, a.w)
	}
	return tt.mk(OpNeg, a.w, 0, "", a, nil, nil)
}

func (tt *TermTable) cmp(op Op, a, b *Term) *Term {
	if a.w != b.w {
		panic(fmt.Sprintf("%s width mismatch %d %d", opNames[op], a.w, b.w))
	}
	if a.op == OpConst && b.op == OpConst {
		switch op {
		case OpUlt:
			return tt.Bool(a.c < b.c)
		case OpUle:
			return tt.Bool(a.c <= b.c)
		case OpSlt:
			return tt.Bool(sext64(a.c, a.w) < sext64(b.c, b.w))
		case OpSle:
			return tt.Bool(sext64(a.c, a.w) <= sext64(b.c, b.w))
		}
	}
	if a == b {
		return tt.Bool(op == OpUle || op == OpSle)
	}
	// cheap unsigned range analysis
	if a.w <= 64 && (op == OpUlt || op == OpUle) {
		if b.op == OpConst {
			ua := tt.ub(a, 0)
			if (op == OpUlt && ua < b.c) || (op == OpUle && ua <= b.c) {
				return tt.tTrue
			}
		}
		if a.op == OpConst {
			ubb := tt.ub(b, 0)
			if (op == OpUlt && a.c >= ubb) || (op == OpUle && a.c > ubb) {
				return tt.tFalse
			}
		}
	}
	// comparisons of zero-extended narrow values against constants
	if b.op == OpConst && a.op == OpZext {
		iw := a.a[0].w
		im := mask(iw)
		switch op {
		case OpUlt:
			if b.c > im {
				return tt.tTrue
			}
			return tt.cmp(OpUlt, a.a[0], tt.Const(b.c, iw))
		case OpUle:
			if b.c >= im {
				return tt.tTrue
			}
			return tt.cmp(OpUle, a.a[0], tt.Const(b.c, iw))
		case OpSlt:
			if a.w > iw { // value is non-negative
				sb := sext64(b.c, b.w)
				if sb <= 0 {
					return tt.tFalse
				}
				if uint64(sb) > im {
					return tt.tTrue
				}
				return tt.cmp(OpUlt, a.a[0], tt.Const(uint64(sb), iw))
			}
		case OpSle:
			if a.w > iw {
				sb := sext64(b.c, b.w)
				if sb < 0 {
					return tt.tFalse
				}
				if uint64(sb) >= im {
					return tt.tTrue
				}
				return tt.cmp(OpUle, a.a[0], tt.Const(uint64(sb), iw))
			}
		}
	}
	if a.op == OpConst && b.op == OpZext {
		iw := b.a[0].w
		im := mask(iw)
		switch op {
		case OpUlt:
			if a.c >= im {
				return tt.tFalse
			}
			return tt.cmp(OpUlt, tt.Const(a.c, iw), b.a[0])
		case OpUle:
			if a.c > im {
				return tt.tFalse
			}
			return tt.cmp(OpUle, tt.Const(a.c, iw), b.a[0])
		case OpSlt:
			if b.w > iw {
				sa := sext64(a.c, a.w)
				if sa < 0 {
					return tt.tTrue
				}
				if uint64(sa) >= im {
					return tt.tFalse
				}
				return tt.cmp(OpUlt, tt.Const(uint64(sa), iw), b.a[0])
			}
		case OpSle:
			if b.w > iw {
				sa := sext64(a.c, a.w)
				if sa <= 0 {
					return tt.tTrue
				}
				if uint64(sa) > im {
					return tt.tFalse
				}
				return tt.cmp(OpUle, tt.Const(uint64(sa), iw), b.a[0])
			}
		}
	}
	return tt.mk(op, 0, 0, "", a, b, nil)
}

// ub returns an upper bound of t as an unsigned value.
func (tt *TermTable) ub(t *Term, depth int) uint64 {
	m := mask(t.w)
	if depth > 6 {
		return m
	}
	switch t.op {
	case OpConst:
		return t.c
	case OpZext:
		return tt.ub(t.a[0], depth+1)
	case OpLshr:
		if t.a[1].op == OpConst {
			if t.a[1].c >= uint64(t.w) {
				return 0
			}
			return tt.ub(t.a[0], depth+1) >> t.a[1].c
		}
	case OpBAnd:
		x, y := tt.ub(t.a[0], depth+1), tt.ub(t.a[1], depth+1)
		if x < y {
			return x
		}
		return y
	case OpIte:
		x, y := tt.ub(t.a[1], depth+1), tt.ub(t.a[2], depth+1)
		if x > y {
			return x
		}
		return y
	case OpURem:
		if t.a[1].op == OpConst && t.a[1].c > 0 {
			return t.a[1].c - 1
		}
	case OpExtract:
		lo := uint16(t.c & 0xffff)
		if lo == 0 {
			x := tt.ub(t.a[0], depth+1)
			if x < m {
				return x
			}
		}
	}
	return m
}

func (tt *TermTable) Ult(a, b *Term) *Term { return tt.cmp(OpUlt, a, b) }
func (tt *TermTable) Ule(a, b *Term) *Term { return tt.cmp(OpUle, a, b) }
func (tt *TermTable) Slt(a, b *Term) *Term { return tt.cmp(OpSlt, a, b) }
func (tt *TermTable) Sle(a, b *Term) *Term { return tt.cmp(OpSle, a, b) }

func (tt *TermTable) Extract(a *Term, hi, lo uint16) *Term {
	if lo == 0 && hi == a.w-1 {
		return a
	}
	w := hi - lo + 1
	if a.op == OpConst && a.w <= 64 {
		return tt.Const(a.c>>lo, w)
	}
	if a.op == OpConst && a.w > 64 && lo%8 == 0 && w%8 == 0 {
		n := len(a.big)
		return tt.BigConst(a.big[n-int(hi+1)/8 : n-int(lo)/8])
	}
	switch a.op {
	case OpZext, OpSext:
		iw := a.a[0].w
		if hi < iw {
			return tt.Extract(a.a[0], hi, lo)
		}
		if a.op == OpZext && lo >= iw {
			return tt.Const(0, w)
		}
	case OpConcat:
		lw := a.a[1].w
		if hi < lw {
			return tt.Extract(a.a[1], hi, lo)
		}
		if lo >= lw {
			return tt.Extract(a.a[0], hi-lw, lo-lw)
		}
	case OpExtract:
		ilo := uint16(a.c & 0xffff)
		return tt.Extract(a.a[0], hi+ilo, lo+ilo)
	case OpIte:
		if a.a[1].op == OpConst || a.a[2].op == OpConst {
			return tt.Ite(a.a[0], tt.Extract(a.a[1], hi, lo), tt.Extract(a.a[2], hi, lo))
		}
	case OpAdd, OpSub, OpMul, OpBAnd, OpBOr, OpBXor:
		// truncation distributes over ring and bitwise operations
		if lo == 0 && a.w <= 64 {
			x, y := a.a[0], a.a[1]
			simple := func(t *Term) bool { return t.op == OpConst || t.op == OpZext || t.op == OpSext || t.op == OpConcat }
			if simple(x) || simple(y) {
				return tt.bin(a.op, tt.Extract(x, hi, 0), tt.Extract(y, hi, 0))
			}
		}
	}
	return tt.mk(OpExtract, w, uint64(hi)<<16|uint64(lo), "", a, nil, nil)
}

func (tt *TermTable) Concat(hi, lo *Term) *Term {
	w := hi.w + lo.w
	if hi.op == OpConst && lo.op == OpConst {
		if w <= 64 {
			return tt.Const(hi.c<<lo.w|lo.c, w)
		}
		if hi.w%8 == 0 && lo.w%8 == 0 {
			return tt.BigConst(append(constBytes(hi), constBytes(lo)...))
		}
	}
	if hi.op == OpConst && hi.c == 0 && hi.w <= 64 && w <= 64 {
		return tt.Zext(lo, w)
	}
	return tt.mk(OpConcat, w, 0, "", hi, lo, nil)
}

func constBytes(t *Term) []byte {
	if t.w > 64 {
		return append([]byte(nil), t.big...)
	}
	n := int(t.w) / 8
	b := make([]byte, n)
	for i := 0; i < n; i++ {
		b[n-1-i] = byte(t.c >> (8 * uint(i)))
	}
	return b
}

func (tt *TermTable) Zext(a *Term, w uint16) *Term {
	if a.w == w {
		return a
	}
	if a.w > w {
		return tt.Extract(a, w-1, 0)
	}
	if a.op == OpConst {
		return tt.Const(a.c, w)
	}
	if a.op == OpZext {
		return tt.Zext(a.a[0], w)
	}
	if a.op == OpIte && (a.a[1].op == OpConst || a.a[2].op == OpConst) {
		return tt.Ite(a.a[0], tt.Zext(a.a[1], w), tt.Zext(a.a[2], w))
	}
	return tt.mk(OpZext, w, 0, "", a, nil, nil)
}

func (tt *TermTable) Sext(a *Term, w uint16) *Term {
	if a.w == w {
		return a
	}
	if a.w > w {
		return tt.Extract(a, w-1, 0)
	}
	if a.op == OpConst {
		return tt.Const(uint64(sext64(a.c, a.w)), w)
	}
	if a.op == OpZext { // sign bit is zero
		return tt.Zext(a.a[0], w)
	}
	return tt.mk(OpSext, w, 0, "", a, nil, nil)
}

// UF applies an uninterpreted function name : BitVec(arg.w) -> BitVec(resw).
func (tt *TermTable) UF(name string, arg *Term, resw uint16) *Term {
	aw := 0
	if arg != nil {
		aw = int(arg.w)
	}
	tt.ufs[name] = [2]int{aw, int(resw)}
	return tt.mk(OpUF, resw, 0, name, arg, nil, nil)
}

// BoolToBV converts Bool to a 0/1 bit-vector.
func (tt *TermTable) BoolToBV(a *Term, w uint16) *Term {
	return tt.Ite(a, tt.Const(1, w), tt.Const(0, w))
}

func (t *Term) String() string {
	var sb strings.Builder
	t.write(&sb, 0)
	return sb.String()
}

func (t *Term) write(sb *strings.Builder, depth int) {
	if depth > 8 {
		sb.WriteString("...")
		return
	}
	switch t.op {
	case OpConst:
		if t.w == 0 {
			if t.c == 1 {
				sb.WriteString("true")
			} else {
				sb.WriteString("false")
			}
		} else if t.w > 64 {
			fmt.Fprintf(sb, "#x%x", t.big)
		} else {
			fmt.Fprintf(sb, "%d:%d", sext64(t.c, t.w), t.w)
		}
	case OpVar:
		sb.WriteString(t.name)
	case OpExtract:
		fmt.Fprintf(sb, "(extract %d %d ", t.c>>16, t.c&0xffff)
		t.a[0].write(sb, depth+1)
		sb.WriteString(")")
	case OpUF:
		sb.WriteString("(" + t.name)
		if t.a[0] != nil {
			sb.WriteString(" ")
			t.a[0].write(sb, depth+1)
		}
		sb.WriteString(")")
	default:
		sb.WriteString("(" + opNames[t.op])
		for _, x := range t.a {
			if x != nil {
				sb.WriteString(" ")
				x.write(sb, depth+1)
			}
		}
		sb.WriteString(")")
	}
}

func sortOf(w uint16) string {
	if w == 0 {
		return "Bool"
	}
	return fmt.Sprintf("(_ BitVec %d)", w)
}

func smtConst(t *Term) string {
	if t.w == 0 {
		if t.c == 1 {
			return "true"
		}
		return "false"
	}
	if t.w > 64 {
		return fmt.Sprintf("#x%x", t.big)
	}
	if t.w%4 == 0 {
		return fmt.Sprintf("#x%0*x", int(t.w)/4, t.c)
	}
	return fmt.Sprintf("#b%0*b", int(t.w), t.c)
}

func smtVarName(name string) string {
	return "|" + strings.NewReplacer("|", "_", "\\", "_").Replace(name) + "|"
}

// Eval evaluates t under an assignment of variables. ok=false if an
// uninterpreted function or an unassigned variable is met (unassigned
// variables default to zero when dflt is true).
func (tt *TermTable) Eval(t *Term, model map[string]uint64, cache map[*Term]uint64) (uint64, bool) {
	if v, ok := cache[t]; ok {
		return v, true
	}
	var r uint64
	switch t.op {
	case OpConst:
		if t.w > 64 {
			return 0, false
		}
		r = t.c
	case OpVar:
		v, ok := model[t.name]
		if !ok {
			v = 0
		}
		r = v & mask1(t.w)
	case OpUF:
		return 0, false
	default:
		var x [3]uint64
		for i, a := range t.a {
			if a == nil {
				break
			}
			v, ok := tt.Eval(a, model, cache)
			if !ok {
				return 0, false
			}
			x[i] = v
		}
		aw := uint16(0)
		if t.a[0] != nil {
			aw = t.a[0].w
		}
		if aw > 64 || t.w > 64 {
			return 0, false
		}
		switch t.op {
		case OpNot:
			r = x[0] ^ 1
		case OpAnd:
			r = x[0] & x[1]
		case OpOr:
			r = x[0] | x[1]
		case OpEq:
			r = b2u(x[0] == x[1])
		case OpIte:
			if x[0] == 1 {
				r = x[1]
			} else {
				r = x[2]
			}
		case OpBNot:
			r = ^x[0]
		case OpNeg:
			r = -x[0]
		case OpUlt:
			r = b2u(x[0] < x[1])
		case OpUle:
			r = b2u(x[0] <= x[1])
		case OpSlt:
			r = b2u(sext64(x[0], aw) < sext64(x[1], aw))
		case OpSle:
			r = b2u(sext64(x[0], aw) <= sext64(x[1], aw))
		case OpExtract:
			r = x[0] >> (t.c & 0xffff)
		case OpConcat:
			r = x[0]<<t.a[1].w | x[1]
		case OpZext:
			r = x[0]
		case OpSext:
			r = uint64(sext64(x[0], aw))
		default:
			c := tt.bin(t.op, tt.Const(x[0], aw), tt.Const(x[1], aw))
			r = c.c
		}
		r &= mask1(t.w)
	}
	cache[t] = r
	return r, true
}

func mask1(w uint16) uint64 {
	if w == 0 {
		return 1
	}
	return mask(w)
}

func b2u(b bool) uint64 {
	if b {
		return 1
	}
	return 0
}

var _ = bits.Len

// MapLeaves rewrites an index term that is a tree of ite nodes over constant
// leaves (possibly under zero extensions) by applying f to every leaf. ok is
// false when idx has a different shape or too many leaves.
func (tt *TermTable) MapLeaves(idx *Term, f func(uint64) *Term, budget *int) (*Term, bool) {
	switch idx.op {
	case OpConst:
		if idx.w > 64 {
			return nil, false
		}
		*budget--
		if *budget < 0 {
			return nil, false
		}
		return f(idx.c), true
	case OpZext:
		return tt.MapLeaves(idx.a[0], f, budget)
	case OpIte:
		a, ok := tt.MapLeaves(idx.a[1], f, budget)
		if !ok {
			return nil, false
		}
		b, ok := tt.MapLeaves(idx.a[2], f, budget)
		if !ok {
			return nil, false
		}
		return tt.Ite(idx.a[0], a, b), true
	}
	return nil, false
}

func (tt *TermTable) splitJoin(hi, lo *Term) *Term {
	if hi.op != OpShl || lo.op != OpBAnd || hi.a[1].op != OpConst {
		return nil
	}
	c := hi.a[1].c
	in := hi.a[0]
	if in.op != OpLshr || in.a[1].op != OpConst || in.a[1].c != c {
		return nil
	}
	x := in.a[0]
	var m *Term
	if lo.a[0] == x {
		m = lo.a[1]
	} else if lo.a[1] == x {
		m = lo.a[0]
	} else {
		return nil
	}
	if m.op != OpConst || c >= 64 || m.c != (uint64(1)<<c)-1 {
		return nil
	}
	return x
}

// IdentityChain recognises ite(x==k1,k1, ite(x==k2,k2, ... d)) where the
// tested constants together with the default d cover every value x can take;
// such a chain equals x.
func (tt *TermTable) IdentityChain(t *Term) *Term {
	if t.op != OpIte || t.w == 0 || t.w > 64 {
		return t
	}
	var x *Term
	seen := map[uint64]bool{}
	cur := t
	for cur.op == OpIte {
		g := cur.a[0]
		if g.op != OpEq {
			return t
		}
		var v, k *Term
		if g.a[0].op == OpConst {
			k, v = g.a[0], g.a[1]
		} else if g.a[1].op == OpConst {
			k, v = g.a[1], g.a[0]
		} else {
			return t
		}
		if x == nil {
			x = v
		} else if x != v {
			return t
		}
		if cur.a[1].op != OpConst || cur.a[1].c != k.c {
			return t
		}
		seen[k.c] = true
		cur = cur.a[2]
	}
	if cur.op != OpConst || x == nil {
		return t
	}
	seen[cur.c] = true
	ub := tt.ub(x, 0)
	if ub > 4096 || ub > mask(t.w) {
		return t
	}
	for v := uint64(0); v <= ub; v++ {
		if !seen[v] {
			return t
		}
	}
	if x.w > t.w {
		return tt.Extract(x, t.w-1, 0)
	}
	return tt.Zext(x, t.w)
}
