package main

// Values, memory nodes, pointers, trail.

import (
	"fmt"
	"go/types"
	"strings"

	"golang.org/x/tools/go/ssa"
)

// Value is a tagged union. Scalars (bool, ints, floats): T != nil means a
// symbolic term; otherwise N holds the concrete bits (truncated to the type's
// width; bools 0/1; floats IEEE bits). Non-scalars live in O.
type Value struct {
	T *Term
	N uint64
	O any
}

// Str is a Go string value: concrete (b == nil) or a sequence of byte values
// of concrete length.
type Str struct {
	s string
	b []Value
}

// Slice value. arr is an array node (flat or kids).
type Slice struct {
	arr           *Node
	off, len, cap int
}

// Ptr is a pointer value: idx < 0 designates node n itself, otherwise element
// idx of flat array node n.
type Ptr struct {
	n   *Node
	idx int
}

// Tuple is an immutable struct/array/multi-value.
type Tuple struct{ e []Value }

// Iface is a non-nil interface value.
type Iface struct {
	t types.Type
	v Value
}

type Closure struct {
	fn  *ssa.Function
	env []Value
	bi  *ssa.Builtin
}

type MapData struct {
	keys   []Value
	vals   []Value
	idx    map[string]int // concrete keys only; nil when any key is symbolic
	hasSym bool
}

type MapObj struct {
	d      *MapData
	kt, vt types.Type
	id     int
}

type rangeIter struct {
	isStr bool
	s     *Str
	keys  []Value
	m     *MapObj
	pos   int
}

const (
	nkLeaf uint8 = iota
	nkStruct
	nkArrKids
	nkArrFlat
)

// Node is a unit of addressable memory.
type Node struct {
	kind uint8
	v    Value
	kids []*Node
	flat []Value
	typ  types.Type
	etyp types.Type // element type for array nodes
	id   int
	born int // path-epoch in which the node was created (0 = root init)
}

type trailEntry struct {
	n   *Node
	idx int
	old Value
	m   *MapObj
	md  *MapData
	fn  func()
}

func boolV(b bool) Value {
	if b {
		return Value{N: 1}
	}
	return Value{}
}

func intV(n uint64) Value { return Value{N: n} }

func (v Value) isSym() bool { return v.T != nil }

func strV(s string) Value { return Value{O: &Str{s: s}} }

func (v Value) str() *Str {
	if v.O == nil {
		return &Str{}
	}
	return v.O.(*Str)
}

func (s *Str) Len() int {
	if s.b != nil {
		return len(s.b)
	}
	return len(s.s)
}

func (s *Str) concrete() bool { return s.b == nil }

// at returns byte i as a Value.
func (s *Str) at(i int) Value {
	if s.b != nil {
		return s.b[i]
	}
	return Value{N: uint64(s.s[i])}
}

func (s *Str) slice(lo, hi int) *Str {
	if s.b != nil {
		if lo == hi {
			return &Str{}
		}
		return normStr(s.b[lo:hi])
	}
	return &Str{s: s.s[lo:hi]}
}

// normStr builds a Str from byte values, collapsing to a concrete string when
// all bytes are concrete.
func normStr(b []Value) *Str {
	allc := true
	for i := range b {
		if b[i].T != nil {
			allc = false
			break
		}
	}
	if allc {
		var sb strings.Builder
		sb.Grow(len(b))
		for i := range b {
			sb.WriteByte(byte(b[i].N))
		}
		return &Str{s: sb.String()}
	}
	return &Str{b: b}
}

func (s *Str) bytes() []Value {
	if s.b != nil {
		return s.b
	}
	r := make([]Value, len(s.s))
	for i := 0; i < len(s.s); i++ {
		r[i].N = uint64(s.s[i])
	}
	return r
}

func concatStr(a, b *Str) *Str {
	if a.Len() == 0 {
		return b
	}
	if b.Len() == 0 {
		return a
	}
	if a.b == nil && b.b == nil {
		return &Str{s: a.s + b.s}
	}
	r := make([]Value, 0, a.Len()+b.Len())
	r = append(r, a.bytes()...)
	r = append(r, b.bytes()...)
	return &Str{b: r}
}

func (s *Str) String() string {
	if s.b == nil {
		return fmt.Sprintf("%q", s.s)
	}
	var sb strings.Builder
	sb.WriteString("sym\"")
	for _, x := range s.b {
		if x.T != nil {
			sb.WriteString("{" + x.T.String() + "}")
		} else {
			sb.WriteByte(byte(x.N))
		}
	}
	sb.WriteString("\"")
	return sb.String()
}

func isLeafType(t types.Type) bool {
	switch t.Underlying().(type) {
	case *types.Struct, *types.Array:
		return false
	}
	return true
}

func (e *Engine) newNode(t types.Type) *Node {
	e.nodeSeq++
	n := &Node{typ: t, id: e.nodeSeq, born: e.epoch}
	switch u := t.Underlying().(type) {
	case *types.Struct:
		n.kind = nkStruct
		n.kids = make([]*Node, u.NumFields())
		for i := range n.kids {
			n.kids[i] = e.newNode(u.Field(i).Type())
		}
	case *types.Array:
		e.initArrayNode(n, u.Elem(), int(u.Len()))
	default:
		n.kind = nkLeaf
	}
	return n
}

func (e *Engine) initArrayNode(n *Node, elem types.Type, ln int) {
	n.etyp = elem
	if isLeafType(elem) {
		n.kind = nkArrFlat
		n.flat = make([]Value, ln)
	} else {
		n.kind = nkArrKids
		n.kids = make([]*Node, ln)
		for i := range n.kids {
			n.kids[i] = e.newNode(elem)
		}
	}
}

// newArray allocates a fresh array node of ln elements of type elem.
func (e *Engine) newArray(elem types.Type, ln int) *Node {
	e.nodeSeq++
	n := &Node{typ: elem, id: e.nodeSeq, born: e.epoch}
	e.initArrayNode(n, elem, ln)
	return n
}

func (n *Node) arrLen() int {
	if n.kind == nkArrFlat {
		return len(n.flat)
	}
	return len(n.kids)
}

// load reads the value designated by p.
func (e *Engine) load(p Ptr) Value {
	if p.idx >= 0 {
		return p.n.flat[p.idx]
	}
	return e.loadNode(p.n)
}

func (e *Engine) loadNode(n *Node) Value {
	switch n.kind {
	case nkLeaf:
		return n.v
	case nkStruct, nkArrKids:
		t := &Tuple{e: make([]Value, len(n.kids))}
		for i, k := range n.kids {
			t.e[i] = e.loadNode(k)
		}
		return Value{O: t}
	default:
		t := &Tuple{e: make([]Value, len(n.flat))}
		copy(t.e, n.flat)
		return Value{O: t}
	}
}

func (e *Engine) store(p Ptr, v Value) {
	if p.idx >= 0 {
		e.setFlat(p.n, p.idx, v)
		return
	}
	e.storeNode(p.n, v)
}

func (e *Engine) setFlat(n *Node, i int, v Value) {
	if n.born != e.epoch || e.trailAlways {
		e.trail = append(e.trail, trailEntry{n: n, idx: i, old: n.flat[i]})
	}
	n.flat[i] = v
}

func (e *Engine) setLeaf(n *Node, v Value) {
	if n.born != e.epoch || e.trailAlways {
		e.trail = append(e.trail, trailEntry{n: n, idx: -1, old: n.v})
	}
	n.v = v
}

func (e *Engine) storeNode(n *Node, v Value) {
	switch n.kind {
	case nkLeaf:
		e.setLeaf(n, v)
	case nkStruct, nkArrKids:
		if v.O == nil {
			// zero value
			for _, k := range n.kids {
				e.storeNode(k, e.zero(k.typ))
			}
			return
		}
		t := v.O.(*Tuple)
		for i, k := range n.kids {
			e.storeNode(k, t.e[i])
		}
	default:
		if v.O == nil {
			for i := range n.flat {
				e.setFlat(n, i, Value{})
			}
			return
		}
		t := v.O.(*Tuple)
		for i := range n.flat {
			e.setFlat(n, i, t.e[i])
		}
	}
}

func (e *Engine) undoTo(mark int) {
	for i := len(e.trail) - 1; i >= mark; i-- {
		t := &e.trail[i]
		switch {
		case t.fn != nil:
			t.fn()
		case t.m != nil:
			t.m.d = t.md
		case t.idx >= 0:
			t.n.flat[t.idx] = t.old
		default:
			t.n.v = t.old
		}
	}
	e.trail = e.trail[:mark]
}

// zero returns the zero value of t (aggregates are shared immutable tuples).
func (e *Engine) zero(t types.Type) Value {
	switch u := t.Underlying().(type) {
	case *types.Struct:
		if z, ok := e.zeroCache[t]; ok {
			return z
		}
		tp := &Tuple{e: make([]Value, u.NumFields())}
		for i := range tp.e {
			tp.e[i] = e.zero(u.Field(i).Type())
		}
		z := Value{O: tp}
		e.zeroCache[t] = z
		return z
	case *types.Array:
		if z, ok := e.zeroCache[t]; ok {
			return z
		}
		tp := &Tuple{e: make([]Value, u.Len())}
		ze := e.zero(u.Elem())
		for i := range tp.e {
			tp.e[i] = ze
		}
		z := Value{O: tp}
		e.zeroCache[t] = z
		return z
	case *types.Tuple:
		tp := &Tuple{e: make([]Value, u.Len())}
		for i := range tp.e {
			tp.e[i] = e.zero(u.At(i).Type())
		}
		return Value{O: tp}
	}
	return Value{}
}

// elemPtr returns a pointer to element i of array node n.
func elemPtr(n *Node, i int) Ptr {
	if n.kind == nkArrFlat {
		return Ptr{n, i}
	}
	return Ptr{n.kids[i], -1}
}

func (e *Engine) arrGet(n *Node, i int) Value {
	if n.kind == nkArrFlat {
		return n.flat[i]
	}
	return e.loadNode(n.kids[i])
}

func (e *Engine) arrSet(n *Node, i int, v Value) {
	if n.kind == nkArrFlat {
		e.setFlat(n, i, v)
		return
	}
	e.storeNode(n.kids[i], v)
}

func (v Value) slice() *Slice {
	if v.O == nil {
		return &Slice{}
	}
	return v.O.(*Slice)
}

func (v Value) String() string {
	if v.T != nil {
		return v.T.String()
	}
	switch o := v.O.(type) {
	case nil:
		return fmt.Sprintf("%d", int64(v.N))
	case *Str:
		return o.String()
	case *Slice:
		return fmt.Sprintf("slice[%d:%d:%d]", o.off, o.len, o.cap)
	case Ptr:
		return fmt.Sprintf("ptr(%d,%d)", o.n.id, o.idx)
	case *Tuple:
		var sb strings.Builder
		sb.WriteString("{")
		for i, x := range o.e {
			if i > 0 {
				sb.WriteString(", ")
			}
			if i > 12 {
				sb.WriteString("...")
				break
			}
			sb.WriteString(x.String())
		}
		sb.WriteString("}")
		return sb.String()
	case *Iface:
		return "iface(" + o.t.String() + ":" + o.v.String() + ")"
	case *Closure:
		if o.fn != nil {
			return "func " + o.fn.String()
		}
		return "builtin"
	case *MapObj:
		return fmt.Sprintf("map#%d(len %d)", o.id, len(o.d.keys))
	}
	return fmt.Sprintf("%T", v.O)
}
