//go:build !vsymbolic

// Package vsym, native flavour: values come from a replay file (model found by
// the solver); Assert reports failures. Used to replay counterexamples against
// the natively compiled code and to cross-validate the symbolic executor.
package vsym

import (
	"bufio"
	"crypto/md5"
	"encoding/json"
	"fmt"
	"hash/fnv"
	"os"
	"reflect"
	"runtime"
	"strings"
	"sync"
	"sync/atomic"
	"testing"
	"time"
)

type replay struct {
	Model  map[string]uint64 `json:"model"`
	Params map[string]int64  `json:"params"`
}

var (
	rp       replay
	counts   = map[string]int{}
	Failures []string
	Reached  []string
	Observed []string
	loaded   bool
)

type Abort struct{ Why string }

func load() {
	if loaded {
		return
	}
	loaded = true
	rp.Model = map[string]uint64{}
	rp.Params = map[string]int64{}
	if p := os.Getenv("VSYM_REPLAY"); p != "" {
		b, err := os.ReadFile(p)
		if err != nil {
			panic(err)
		}
		if err := json.Unmarshal(b, &rp); err != nil {
			panic(err)
		}
	}
}

// Reset clears per-run state (counters) so a harness can be run again.
func Reset() {
	counts = map[string]int{}
	Failures, Reached, Observed = nil, nil, nil
}

func next(name string) uint64 {
	load()
	n := counts[name]
	counts[name] = n + 1
	return rp.Model[fmt.Sprintf("%s#%d", name, n)]
}

func Symbolic() bool            { return false }
func Byte(name string) byte     { return byte(next(name)) }
func Bool(name string) bool     { return next(name) != 0 }
func Int(name string) int       { return int(next(name)) }
func Int64(name string) int64   { return int64(next(name)) }
func Uint64(name string) uint64 { return next(name) }
func Int32(name string) int32   { return int32(next(name)) }
func Bytes(name string, n int) []byte {
	b := make([]byte, n)
	for i := range b {
		b[i] = byte(next(name))
	}
	return b
}
func String(name string, n int) string { return string(Bytes(name, n)) }
func Choice(name string, n int) int {
	if n <= 1 {
		return 0
	}
	v := int(int64(next(name)))
	if v < 0 || v >= n {
		panic(Abort{fmt.Sprintf("choice %s=%d out of range %d", name, v, n)})
	}
	return v
}
func Concrete(x int, lo, hi int) int {
	if x < lo || x > hi {
		panic(Abort{"concrete out of range"})
	}
	return x
}
func Param(name string, def int) int {
	load()
	if v, ok := rp.Params[name]; ok {
		return int(v)
	}
	return def
}
func Assume(c bool) {
	if !c {
		panic(Abort{"assume-false"})
	}
}
func Assert(c bool, label string) {
	if !c {
		Failures = append(Failures, label)
		fmt.Printf("VSYM-ASSERT-FAIL %s\n", label)
	}
}
func Fail(label string) {
	Failures = append(Failures, label)
	fmt.Printf("VSYM-ASSERT-FAIL %s\n", label)
}
func Reach(label string)            { Reached = append(Reached, label) }
func KnownRegion(id string, c bool) {}
func Observe(name string, v interface{}) {
	Observed = append(Observed, name+"="+render(v, 0))
}

// render is the canonical rendering shared with the engine's predictions.
func render(v interface{}, depth int) string {
	if depth > 4 {
		return "..."
	}
	if v == nil {
		return "{?}"
	}
	rv := reflect.ValueOf(v)
	switch rv.Kind() {
	case reflect.Bool:
		if rv.Bool() {
			return "true"
		}
		return "false"
	case reflect.Int, reflect.Int8, reflect.Int16, reflect.Int32, reflect.Int64:
		return fmt.Sprintf("%d", rv.Int())
	case reflect.Uint, reflect.Uint8, reflect.Uint16, reflect.Uint32, reflect.Uint64, reflect.Uintptr:
		return fmt.Sprintf("%d", rv.Uint())
	case reflect.String:
		return fmt.Sprintf("%q", rv.String())
	case reflect.Slice:
		if rv.Type().Elem().Kind() == reflect.Uint8 {
			return "x" + fmt.Sprintf("%x", rv.Bytes())
		}
		out := "["
		for i := 0; i < rv.Len(); i++ {
			if i > 0 {
				out += " "
			}
			out += render(rv.Index(i).Interface(), depth+1)
		}
		return out + "]"
	}
	return "{" + fmt.Sprintf("%T", v) + "}"
}
func IsConcrete(v interface{}) bool { return true }
func Comparable(v interface{}) bool {
	if v == nil {
		return true
	}
	return reflect.TypeOf(v).Comparable()
}
func TypeName(v interface{}) string { return fmt.Sprintf("%T", v) }
func MD5(b []byte) [16]byte         { return md5.Sum(b) }
func FNV128a(b []byte) [16]byte {
	h := fnv.New128a()
	h.Write(b)
	var r [16]byte
	copy(r[:], h.Sum(nil))
	return r
}
func Yield() { runtime.Gosched() }
func Logf(format string, a ...interface{}) {
	if os.Getenv("VSYM_LOG") != "" {
		fmt.Printf("VSYM-LOG "+format+"\n", a...)
	}
}

// Run executes a harness natively and prints a result line.
func Run(name string, f func()) (failed bool) {
	Reset()
	defer func() {
		if r := recover(); r != nil {
			if a, ok := r.(Abort); ok {
				fmt.Printf("VSYM-RESULT %s aborted: %s\n", name, a.Why)
				return
			}
			fmt.Printf("VSYM-RESULT %s panic: %v\n", name, r)
			panic(r)
		}
	}()
	f()
	if len(Failures) > 0 {
		fmt.Printf("VSYM-RESULT %s failed: %v\n", name, Failures)
		return true
	}
	fmt.Printf("VSYM-RESULT %s ok\n", name)
	return false
}

const (
	KOther = iota
	KBool
	KInt
	KUint
	KString
	KBytes
)

func KindOf(v interface{}) int {
	if v == nil {
		return KOther
	}
	rv := reflect.ValueOf(v)
	switch rv.Kind() {
	case reflect.Bool:
		return KBool
	case reflect.Int, reflect.Int8, reflect.Int16, reflect.Int32, reflect.Int64:
		return KInt
	case reflect.Uint, reflect.Uint8, reflect.Uint16, reflect.Uint32, reflect.Uint64, reflect.Uintptr:
		return KUint
	case reflect.String:
		return KString
	case reflect.Slice:
		if rv.Type().Elem().Kind() == reflect.Uint8 {
			return KBytes
		}
	}
	return KOther
}
func IntOf(v interface{}) int64    { return reflect.ValueOf(v).Int() }
func UintOf(v interface{}) uint64  { return reflect.ValueOf(v).Uint() }
func StrOf(v interface{}) string   { return reflect.ValueOf(v).String() }
func BytesOf(v interface{}) []byte { return reflect.ValueOf(v).Bytes() }
func BoolOf(v interface{}) bool    { return reflect.ValueOf(v).Bool() }
func IsNilPtr(v interface{}) bool {
	if v == nil {
		return true
	}
	rv := reflect.ValueOf(v)
	switch rv.Kind() {
	case reflect.Ptr, reflect.Map, reflect.Slice, reflect.Func, reflect.Interface, reflect.Chan:
		return rv.IsNil()
	}
	return false
}

func And(a, b bool) bool     { return a && b }
func Or(a, b bool) bool      { return a || b }
func Implies(a, b bool) bool { return !a || b }
func Ite(c bool, a, b int) int {
	if c {
		return a
	}
	return b
}
func IteByte(c bool, a, b byte) byte {
	if c {
		return a
	}
	return b
}
func StrEq(a, b string) bool { return a == b }

func loadFile(p string) {
	loaded = true
	rp = replay{Model: map[string]uint64{}, Params: map[string]int64{}}
	b, err := os.ReadFile(p)
	if err != nil {
		panic(err)
	}
	if err := json.Unmarshal(b, &rp); err != nil {
		panic(err)
	}
	if rp.Model == nil {
		rp.Model = map[string]uint64{}
	}
	if rp.Params == nil {
		rp.Params = map[string]int64{}
	}
}

func panicSite() string {
	pcs := make([]uintptr, 64)
	n := runtime.Callers(3, pcs)
	frames := runtime.CallersFrames(pcs[:n])
	for {
		f, more := frames.Next()
		fn := f.Function
		if strings.Contains(fn, "gofakes3") && !strings.Contains(fn, "/internal/vsym") && !strings.Contains(fn, "/internal/vharn") && !strings.Contains(fn, ".VH_") && !strings.Contains(fn, ".vh") {
			return fn
		}
		if !more {
			break
		}
	}
	return "?"
}

// RunReplays runs the replay files listed in $VSYM_REPLAY_LIST (lines
// "<harness> <file>") and prints one VSYM-RESULT line per entry.
func RunReplays(t *testing.T, hs map[string]func()) {
	lp := os.Getenv("VSYM_REPLAY_LIST")
	if lp == "" {
		t.Skip("no VSYM_REPLAY_LIST")
	}
	f, err := os.Open(lp)
	if err != nil {
		t.Fatal(err)
	}
	defer f.Close()
	sc := bufio.NewScanner(f)
	idx := 0
	for sc.Scan() {
		fs := strings.Fields(sc.Text())
		if len(fs) != 2 {
			continue
		}
		h := hs[fs[0]]
		if h == nil {
			fmt.Printf("VSYM-RESULT %d %s aborted: unknown harness\n", idx, fs[0])
			idx++
			continue
		}
		repeat := 1
		if v := os.Getenv("VSYM_REPEAT"); v != "" {
			fmt.Sscanf(v, "%d", &repeat)
		}
		hang := 0
		if v := os.Getenv("VSYM_HANG_SECS"); v != "" {
			fmt.Sscanf(v, "%d", &hang)
		}
		body := func(i int) {
			defer func() {
				if r := recover(); r != nil {
					if a, ok := r.(Abort); ok {
						fmt.Printf("VSYM-RESULT %d %s aborted: %s\n", i, fs[0], a.Why)
						return
					}
					msg := strings.ReplaceAll(fmt.Sprint(r), "\n", " ")
					fmt.Printf("VSYM-RESULT %d %s panic: %s @site %s\n", i, fs[0], msg, panicSite())
				}
			}()
			for rep := 0; rep < repeat; rep++ {
				Reset()
				loadFile(fs[1])
				h()
				if rep == 0 {
					for _, o := range Observed {
						fmt.Printf("VSYM-OBS %d %s\n", i, o)
					}
				}
				if len(Failures) > 0 {
					fmt.Printf("VSYM-RESULT %d %s failed: %v\n", i, fs[0], Failures)
					return
				}
			}
			fmt.Printf("VSYM-RESULT %d %s ok\n", i, fs[0])
		}
		if hang <= 0 {
			body(idx)
		} else {
			// a replay that stops making progress (a deadlock) is reported for
			// itself; its goroutines are abandoned and the next replay starts
			// from a fresh state
			done := make(chan struct{})
			go func(i int) {
				defer close(done)
				body(i)
			}(idx)
			select {
			case <-done:
			case <-time.After(time.Duration(hang) * time.Second):
				fmt.Printf("VSYM-RESULT %d %s timeout: no result within %ds\n", idx, fs[0], hang)
				wg = sync.WaitGroup{}
			}
		}
		idx++
	}
}

func BlobPut(v interface{}) []byte              { panic("vsym.BlobPut is symbolic-only") }
func BlobGet(data []byte, dst interface{}) bool { panic("vsym.BlobGet is symbolic-only") }

func ByteSlicesOf(ptr interface{}) [][]byte { panic("vsym.ByteSlicesOf is symbolic-only") }

func LenOf(slice interface{}) int { return reflect.ValueOf(slice).Len() }
func SwapElems(slice interface{}, i, j int) {
	reflect.Swapper(slice)(i, j)
}

var wg sync.WaitGroup

func Go(f func()) {
	wg.Add(1)
	go func() {
		defer wg.Done()
		f()
	}()
}
func Join() { wg.Wait() }

// YieldUntil waits (at most 200 ms) until another goroutine called SetFlag on
// the same flag.
func YieldUntil(flag *int32) {
	deadline := time.Now().Add(200 * time.Millisecond)
	for atomic.LoadInt32(flag) == 0 && time.Now().Before(deadline) {
		runtime.Gosched()
	}
}
func SetFlag(flag *int32) { atomic.StoreInt32(flag, 1) }
