//go:build !vsymbolic

// Package vsym, native flavour: values come from a replay file (model found by
// the solver); Assert reports failures. Used to replay counterexamples against
// the natively compiled code and to cross-validate the symbolic executor.
package vsym

import (
	"crypto/md5"
	"encoding/json"
	"fmt"
	"hash/fnv"
	"os"
	"reflect"
)

type replay struct {
	Model  map[string]uint64 `json:"model"`
	Params map[string]int64  `json:"params"`
}

var (
	rp       replay
	counts   = map[string]int{}
	Failures []string
	Reached  []string
	Observed []string
	loaded   bool
)

type Abort struct{ Why string }

func load() {
	if loaded {
		return
	}
	loaded = true
	rp.Model = map[string]uint64{}
	rp.Params = map[string]int64{}
	if p := os.Getenv("VSYM_REPLAY"); p != "" {
		b, err := os.ReadFile(p)
		if err != nil {
			panic(err)
		}
		if err := json.Unmarshal(b, &rp); err != nil {
			panic(err)
		}
	}
}

// Reset clears per-run state (counters) so a harness can be run again.
func Reset() {
	counts = map[string]int{}
	Failures, Reached, Observed = nil, nil, nil
}

func next(name string) uint64 {
	load()
	n := counts[name]
	counts[name] = n + 1
	return rp.Model[fmt.Sprintf("%s#%d", name, n)]
}

func Symbolic() bool            { return false }
func Byte(name string) byte     { return byte(next(name)) }
func Bool(name string) bool     { return next(name) != 0 }
func Int(name string) int       { return int(next(name)) }
func Int64(name string) int64   { return int64(next(name)) }
func Uint64(name string) uint64 { return next(name) }
func Int32(name string) int32   { return int32(next(name)) }
func Bytes(name string, n int) []byte {
	b := make([]byte, n)
	for i := range b {
		b[i] = byte(next(name))
	}
	return b
}
func String(name string, n int) string { return string(Bytes(name, n)) }
func Choice(name string, n int) int {
	if n <= 1 {
		return 0
	}
	v := int(int64(next(name)))
	if v < 0 || v >= n {
		panic(Abort{fmt.Sprintf("choice %s=%d out of range %d", name, v, n)})
	}
	return v
}
func Concrete(x int, lo, hi int) int {
	if x < lo || x > hi {
		panic(Abort{"concrete out of range"})
	}
	return x
}
func Param(name string, def int) int {
	load()
	if v, ok := rp.Params[name]; ok {
		return int(v)
	}
	return def
}
func Assume(c bool) {
	if !c {
		panic(Abort{"assume-false"})
	}
}
func Assert(c bool, label string) {
	if !c {
		Failures = append(Failures, label)
		fmt.Printf("VSYM-ASSERT-FAIL %s\n", label)
	}
}
func Fail(label string) {
	Failures = append(Failures, label)
	fmt.Printf("VSYM-ASSERT-FAIL %s\n", label)
}
func Reach(label string)            { Reached = append(Reached, label) }
func KnownRegion(id string, c bool) {}
func Observe(name string, v interface{}) {
	Observed = append(Observed, fmt.Sprintf("%s=%v", name, v))
}
func IsConcrete(v interface{}) bool { return true }
func Comparable(v interface{}) bool {
	if v == nil {
		return true
	}
	return reflect.TypeOf(v).Comparable()
}
func TypeName(v interface{}) string { return fmt.Sprintf("%T", v) }
func MD5(b []byte) [16]byte         { return md5.Sum(b) }
func FNV128a(b []byte) [16]byte {
	h := fnv.New128a()
	h.Write(b)
	var r [16]byte
	copy(r[:], h.Sum(nil))
	return r
}
func Yield() {}
func Logf(format string, a ...interface{}) {
	if os.Getenv("VSYM_LOG") != "" {
		fmt.Printf("VSYM-LOG "+format+"\n", a...)
	}
}

// Run executes a harness natively and prints a result line.
func Run(name string, f func()) (failed bool) {
	Reset()
	defer func() {
		if r := recover(); r != nil {
			if a, ok := r.(Abort); ok {
				fmt.Printf("VSYM-RESULT %s aborted: %s\n", name, a.Why)
				return
			}
			fmt.Printf("VSYM-RESULT %s panic: %v\n", name, r)
			panic(r)
		}
	}()
	f()
	if len(Failures) > 0 {
		fmt.Printf("VSYM-RESULT %s failed: %v\n", name, Failures)
		return true
	}
	fmt.Printf("VSYM-RESULT %s ok\n", name)
	return false
}
