//go:build vsymbolic

// Package vsym is the harness API. This file is the symbolic flavour: every
// function body is a placeholder; the gosym engine intercepts the calls.
package vsym

func Symbolic() bool                  { return true }
func Byte(name string) byte           { return 0 }
func Bool(name string) bool           { return false }
func Int(name string) int             { return 0 }
func Int64(name string) int64         { return 0 }
func Uint64(name string) uint64       { return 0 }
func Int32(name string) int32         { return 0 }
func Bytes(name string, n int) []byte { return nil }
func String(name string, n int) string {
	return ""
}
func Choice(name string, n int) int      { return 0 }
func Concrete(x int, lo, hi int) int     { return x }
func Param(name string, def int) int     { return def }
func Assume(c bool)                      {}
func Assert(c bool, label string)        {}
func Fail(label string)                  {}
func Reach(label string)                 {}
func KnownRegion(id string, c bool)      {}
func Observe(name string, v interface{}) {}
func IsConcrete(v interface{}) bool      { return true }
func Comparable(v interface{}) bool      { return true }
func TypeName(v interface{}) string      { return "" }
func MD5(b []byte) [16]byte              { return [16]byte{} }
func FNV128a(b []byte) [16]byte          { return [16]byte{} }
func Yield()                             {}
func Logf(format string, a ...interface{}) {
}

const (
	KOther = iota
	KBool
	KInt
	KUint
	KString
	KBytes
)

func KindOf(v interface{}) int     { return 0 }
func IntOf(v interface{}) int64    { return 0 }
func UintOf(v interface{}) uint64  { return 0 }
func StrOf(v interface{}) string   { return "" }
func BytesOf(v interface{}) []byte { return nil }
func BoolOf(v interface{}) bool    { return false }
func IsNilPtr(v interface{}) bool  { return false }

// Fork-free boolean and conditional combinators (plain && / || / if fork the
// symbolic execution; these build one term).
func And(a, b bool) bool             { return a && b }
func Or(a, b bool) bool              { return a || b }
func Implies(a, b bool) bool         { return !a || b }
func Ite(c bool, a, b int) int       { return a }
func IteByte(c bool, a, b byte) byte { return a }
func StrEq(a, b string) bool         { return a == b }

// Blob store used by the codec stubs (BSON/JSON round trips are modelled as
// the identity on the Go value).
func BlobPut(v interface{}) []byte              { return nil }
func BlobGet(data []byte, dst interface{}) bool { return false }

func LenOf(slice interface{}) int           { return 0 }
func SwapElems(slice interface{}, i, j int) {}

// Threads (C07): Go starts f on a second thread; Join waits for all of them.
func Go(f func()) {}
func Join()       {}

// YieldUntil is a scheduling point at which the native flavour waits (bounded)
// for another client to have called SetFlag: it makes one particular
// interleaving reproducible natively. Symbolically every interleaving at this
// point is explored anyway.
// ByteSlicesOf: every []byte field reachable in *ptr, sharing storage (engine intrinsic).
func ByteSlicesOf(ptr interface{}) [][]byte { return nil }

func YieldUntil(flag *int32) { Yield() }
func SetFlag(flag *int32)    { *flag = 1 }
