package gofakes3

import "github.com/johannesboyne/gofakes3/internal/vsym"

// vhSpecMatch is the listing rule of the property text: a key matches when it
// starts with the prefix; with a delimiter, a key whose remainder after the
// prefix contains the delimiter is represented by the common prefix
// prefix+remainder-up-to-and-including-the-first-delimiter.
func vhSpecMatch(key, prefix string, hasDelim bool, delim byte) (ok, common bool, cp string) {
	if len(key) < len(prefix) {
		return false, false, ""
	}
	for i := 0; i < len(prefix); i++ {
		if key[i] != prefix[i] {
			return false, false, ""
		}
	}
	if !hasDelim {
		return true, false, ""
	}
	for i := len(prefix); i < len(key); i++ {
		if key[i] == delim {
			return true, true, key[:i+1]
		}
	}
	return true, false, ""
}

// VH_C03a: Prefix.Match against the rule, for every key/prefix/delimiter in the bound.
func VH_C03a() {
	kl := 1 + vsym.Choice("keylen", vsym.Param("maxkey", 3))
	pl := vsym.Choice("prefixlen", vsym.Param("maxprefix", 2)+1)
	key := vsym.String("key", kl)
	prefix := vsym.String("prefix", pl)
	hasDelim := vsym.Choice("hasdelim", 2) == 1
	p := Prefix{Prefix: prefix, HasPrefix: prefix != ""}
	var delim byte
	if hasDelim {
		delim = vsym.Byte("delim")
		vsym.Assume(delim < 0x80) // single-byte delimiters; multi-byte ones are outside the claim
		p.HasDelimiter, p.Delimiter = true, string([]byte{delim})
		// preconditions of the property
		vsym.Assume(key[0] != delim)
		vsym.Assume(key[kl-1] != delim)
		if pl > 0 {
			vsym.Assume(prefix[0] != delim)
		}
	}
	var m PrefixMatch
	got := p.Match(key, &m)
	vsym.Observe("matched", got)
	vsym.Observe("common", m.CommonPrefix)
	vsym.Observe("part", m.MatchedPart)
	ok, common, cp := vhSpecMatch(key, prefix, hasDelim, delim)
	vsym.Assert(got == ok, "C03a/matches-iff-has-prefix")
	if got && ok {
		vsym.Reach("C03a/matched")
		vsym.Assert(m.CommonPrefix == common, "C03a/content-vs-common-prefix")
		if common && m.CommonPrefix {
			vsym.Reach("C03a/common")
			vsym.Assert(m.MatchedPart == cp, "C03a/common-prefix-value")
		}
		vsym.Assert(m.Key == key, "C03a/key-echo")
	} else if !got && !ok {
		vsym.Reach("C03a/unmatched")
	}
}
