package gofakes3

import (
	"bytes"

	"github.com/johannesboyne/gofakes3/internal/vsym"
)

type vhNullBackend struct{ Backend }

// VH_C14a: ListParts over an arbitrary parts slice (every such slice is
// reachable through uploads), free marker (full int width) and limit; then a
// page walk with the markers the server returns.
func VH_C14a() {
	u := newUploader(nil, DefaultTimeSource())
	id, err := u.CreateMultipartUpload("bkt", "k", map[string]string{})
	vsym.Assert(err == nil, "C14a/create")
	mpu := u.buckets["bkt"].uploads[id]
	n := vsym.Choice("slots", vsym.Param("maxslots", 4)+1) // len(parts) = n (index 0 unused)
	type pinfo struct {
		num  int
		size int64
		etag string
	}
	var want []pinfo
	if n > 0 {
		mpu.parts = make([]*multipartUploadPart, n+1)
		for i := 1; i <= n; i++ {
			if vsym.Choice("present", 2) == 1 {
				body := vsym.Bytes("pb", 1+vsym.Choice("plen", 2))
				et := string([]byte{'"', vsym.Byte("et"), '"'})
				mpu.parts[i] = &multipartUploadPart{PartNumber: i, Body: body, ETag: et}
				want = append(want, pinfo{i, int64(len(body)), et})
			}
		}
	}
	// single call with a free marker
	marker := vsym.Int("marker")
	vsym.Assume(marker >= 0) // the HTTP layer clamps negative markers to 0
	limit := int64(1 + vsym.Choice("limit", len(want)+1))
	res, err := u.ListParts("bkt", "k", id, marker, limit)
	vsym.Assert(err == nil && res != nil, "C14a/error")
	if err != nil || res == nil {
		return
	}
	var exp []pinfo
	for _, p := range want {
		if p.num > marker {
			exp = append(exp, p)
		}
	}
	truncated := int64(len(exp)) > limit
	if truncated {
		exp = exp[:limit]
		vsym.Reach("C14a/truncated")
	}
	vsym.Observe("parts", len(res.Parts))
	vsym.Observe("truncated", res.IsTruncated)
	vsym.Observe("next", res.NextPartNumberMarker)
	vsym.Assert(len(res.Parts) == len(exp), "C14a/page-length")
	if len(res.Parts) == len(exp) {
		for i := range exp {
			vsym.Assert(res.Parts[i].PartNumber == exp[i].num, "C14a/true-part-number")
			vsym.Assert(res.Parts[i].Size == exp[i].size, "C14a/size")
			vsym.Assert(res.Parts[i].ETag == exp[i].etag, "C14a/etag")
		}
	}
	vsym.Assert(res.IsTruncated == truncated, "C14a/is-truncated")

	// page walk from the start with the markers the server returns
	var all []int
	m := 0
	for page := 0; ; page++ {
		vsym.Assert(page <= len(want)+1, "C14a/walk-terminates")
		if page > len(want)+1 {
			return
		}
		r, err := u.ListParts("bkt", "k", id, m, limit)
		vsym.Assert(err == nil && r != nil, "C14a/walk-error")
		if err != nil || r == nil {
			return
		}
		for _, p := range r.Parts {
			all = append(all, p.PartNumber)
		}
		if !r.IsTruncated {
			break
		}
		vsym.Assert(r.NextPartNumberMarker > m, "C14a/marker-advances")
		if r.NextPartNumberMarker <= m {
			return
		}
		m = r.NextPartNumberMarker
	}
	vsym.Assert(len(all) == len(want), "C14a/walk-visits-each-part-once")
	if len(all) == len(want) {
		for i := range want {
			vsym.Assert(all[i] == want[i].num, "C14a/walk-order")
		}
	}
	vsym.Reach("C14a/done")
	_ = bytes.MinRead
}
