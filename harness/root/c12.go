package gofakes3

import (
	"errors"
	"io"

	"github.com/johannesboyne/gofakes3/internal/vsym"
)

var vhErrTransport = errors.New("transport failure (injected)")

// vhStepReader honours only the io.Reader contract: every call delivers a free
// number n >= 1 (or 0 together with an error) of fresh bytes, optionally
// together with an error (io.EOF or a transport failure).
type vhStepReader struct {
	produced []byte
	calls    int
	maxCalls int
	dead     bool
}

func (r *vhStepReader) Read(p []byte) (int, error) {
	r.calls++
	if r.dead || len(p) == 0 || (r.maxCalls > 0 && r.calls > r.maxCalls) {
		return 0, io.EOF
	}
	n := 1 + vsym.Choice("rn", len(p))
	errKind := vsym.Choice("rerr", 3)
	if errKind != 0 && vsym.Choice("rzero", 2) == 1 {
		n = 0
	}
	for i := 0; i < n; i++ {
		b := vsym.Byte("rb")
		p[i] = b
		r.produced = append(r.produced, b)
	}
	switch errKind {
	case 1:
		r.dead = true
		return n, io.EOF
	case 2:
		r.dead = true
		return n, vhErrTransport
	}
	return n, nil
}

// VH_C12a: one Read call in the data phase from an arbitrary state: the bytes
// handed to the consumer are exactly the bytes the transport produced, and the
// remaining-chunk counter tracks what was delivered.
func VH_C12a() {
	n := 1 + vsym.Choice("buflen", vsym.Param("maxbuf", 3))
	in := &vhStepReader{maxCalls: n + 2}
	cr := &chunkedReader{inner: in, chunkRemain: vsym.Int("remain"), notFirstChunk: vsym.Bool("nfc")}
	vsym.Assume(cr.chunkRemain >= n)
	vsym.Assume(cr.chunkRemain <= 1<<31)
	pre := cr.chunkRemain
	p := make([]byte, n)
	got, err := cr.Read(p)
	vsym.Assert(got == len(in.produced), "C12a/count")
	if got == len(in.produced) {
		for i := 0; i < got; i++ {
			vsym.Assert(p[i] == in.produced[i], "C12a/bytes")
		}
	}
	vsym.Assert(cr.chunkRemain == pre-got, "C12a/remain-tracks-delivered")
	if err == nil {
		vsym.Assert(got == n, "C12a/short-read-without-error")
		vsym.Reach("C12a/full")
	} else {
		vsym.Reach("C12a/error")
	}
}

// vhFragReader delivers a byte stream in transport fragments: the first
// `free` multi-byte reads return a free number of bytes (1..maxFrag); the last
// bytes may arrive together with io.EOF.
type vhFragReader struct {
	data    []byte
	pos     int
	free    int // budget of free fragmentations for small (payload) reads
	freeBig int // budget for large reads (header skipping through io.CopyN)
	maxFrag int
	eofWith bool
}

func (r *vhFragReader) Read(p []byte) (int, error) {
	rem := len(r.data) - r.pos
	if rem == 0 {
		return 0, io.EOF
	}
	if len(p) == 0 {
		return 0, nil
	}
	k := len(p)
	if k > rem {
		k = rem
	}
	small := len(p) <= 8
	if k > 1 && ((small && r.free > 0) || (!small && r.freeBig > 0)) {
		if small {
			r.free--
		} else {
			r.freeBig--
		}
		m := k
		if m > r.maxFrag {
			m = r.maxFrag
		}
		k = 1 + vsym.Choice("frag", m)
	}
	copy(p, r.data[r.pos:r.pos+k])
	r.pos += k
	if r.pos == len(r.data) && r.eofWith {
		return k, io.EOF
	}
	return k, nil
}

const vhSig = "ad80c730a21e5b8d04586a2213dd63b9a0e99e0e2307b0ade35a65485a288648"

func vhHexLen(n int) string {
	const d = "0123456789abcdef"
	if n < 16 {
		return string([]byte{d[n]})
	}
	return string([]byte{d[n>>4], d[n&15]})
}

// vhFrame builds an aws-chunked stream out of chunk payloads.
func vhFrame(chunks [][]byte) []byte {
	var s []byte
	for _, c := range chunks {
		s = append(s, vhHexLen(len(c))...)
		s = append(s, ";chunk-signature="...)
		s = append(s, vhSig...)
		s = append(s, "\r\n"...)
		s = append(s, c...)
		s = append(s, "\r\n"...)
	}
	s = append(s, "0;chunk-signature="...)
	s = append(s, vhSig...)
	s = append(s, "\r\n\r\n"...)
	return s
}

// VH_C12b: a whole framed stream, free chunk sizes and payload bytes, free
// transport fragmentation, consumer with a small buffer (so that the
// buffer-smaller-than-chunk branch is exercised): the decoded bytes are the
// concatenation of the chunk payloads and the stream ends with io.EOF.
func VH_C12b() {
	nch := 1 + vsym.Choice("nchunks", vsym.Param("maxchunks", 2))
	maxc := vsym.Param("maxchunk", 3)
	var chunks [][]byte
	var payload []byte
	for i := 0; i < nch; i++ {
		sz := 1 + vsym.Choice("csz", maxc)
		c := vsym.Bytes("cd", sz)
		chunks = append(chunks, c)
		payload = append(payload, c...)
	}
	tr := &vhFragReader{data: vhFrame(chunks), free: vsym.Param("freefrags", 3), freeBig: vsym.Param("freebig", 1), maxFrag: 3, eofWith: vsym.Choice("eofwith", 2) == 1}
	cr := newChunkedReader(tr)
	bs := 1 + vsym.Choice("bufsize", vsym.Param("maxbuf", 3))
	var out []byte
	var err error
	for iter := 0; iter < len(payload)+2; iter++ {
		buf := make([]byte, bs)
		var n int
		n, err = cr.Read(buf)
		out = append(out, buf[:n]...)
		if err != nil {
			break
		}
	}
	vsym.Observe("decoded", out)
	vsym.Observe("eof", err == io.EOF)
	vsym.Assert(err == io.EOF, "C12b/ends-with-EOF")
	vsym.Assert(len(out) == len(payload), "C12b/decoded-length")
	if len(out) == len(payload) {
		vsym.Assert(string(out) == string(payload), "C12b/decoded-bytes")
	}
	vsym.Reach("C12b/done")
}
