package gofakes3

import "github.com/johannesboyne/gofakes3/internal/vsym"

func vhLabelChar(c byte) bool {
	return (c >= 'a' && c <= 'z') || (c >= '0' && c <= '9') || c == '-'
}

func vhAlnum(c byte) bool { return (c >= 'a' && c <= 'z') || (c >= '0' && c <= '9') }

// vhIsIPv4 reports four dot-separated decimal fields 0..255 without leading zeros.
func vhIsIPv4(s string) bool {
	fields, val, digits := 0, 0, 0
	for i := 0; i <= len(s); i++ {
		if i == len(s) || s[i] == '.' {
			if digits == 0 {
				return false
			}
			fields++
			val, digits = 0, 0
			continue
		}
		c := s[i]
		if c < '0' || c > '9' {
			return false
		}
		if digits > 0 && val == 0 {
			return false // leading zero
		}
		val = val*10 + int(c-'0')
		digits++
		if val > 255 {
			return false
		}
	}
	return fields == 4
}

// vhSpecBucketName is the documented rule (property C17).
func vhSpecBucketName(s string) bool {
	if len(s) < 3 || len(s) > 63 {
		return false
	}
	start := 0
	for i := 0; i <= len(s); i++ {
		if i == len(s) || s[i] == '.' {
			l := s[start:i]
			if len(l) < 3 || !vhAlnum(l[0]) || !vhAlnum(l[len(l)-1]) {
				return false
			}
			start = i + 1
			continue
		}
		if !vhLabelChar(s[i]) {
			return false
		}
	}
	return !vhIsIPv4(s)
}

// VH_C17a: ValidateBucketName against the documented rule for every byte
// string up to the bound.
func VH_C17a() {
	n := vsym.Choice("len", vsym.Param("maxlen", 5)+1)
	name := vsym.String("name", n)
	err := ValidateBucketName(name)
	vsym.Observe("accepted", err == nil)
	want := vhSpecBucketName(name)
	if err == nil {
		vsym.Reach("C17a/accepted")
		vsym.Assert(want, "C17a/invalid-name-accepted")
	} else {
		vsym.Reach("C17a/refused")
		vsym.Assert(!want, "C17a/valid-name-refused")
		vsym.Assert(HasErrorCode(err, ErrInvalidBucketName), "C17a/error-code")
	}
}

// VH_C17b: dotted-decimal templates (ddd.ddd.ddd.ddd with free digits and a
// variant with a leading zero / a letter), label-structure templates (every
// arrangement of letters, hyphens and dots between alphanumeric ends) and
// length-boundary templates.
func VH_C17b() {
	form := vsym.Choice("form", 4)
	var name string
	switch form {
	case 0: // IPv4-looking: three digits per field, first digit of each field free 0..9, rest free
		d := vsym.String("d", 12)
		for i := 0; i < 12; i++ {
			vsym.Assume(d[i] >= '0' && d[i] <= '9')
		}
		name = d[0:3] + "." + d[3:6] + "." + d[6:9] + "." + d[9:12]
	case 1: // like an address but one free byte may be a letter or hyphen
		d := vsym.String("e", 3)
		name = "10" + d[0:1] + ".20" + d[1:2] + ".30" + d[2:3] + ".400"
	case 3: // label structure: alphanumeric ends, every interior byte one of letter, hyphen, dot
		ln := 5 + vsym.Choice("dl", vsym.Param("dotlen", 4))
		in := vsym.String("in", ln-2)
		for i := 0; i < ln-2; i++ {
			vsym.Assume(in[i] == 'b' || in[i] == '-' || in[i] == '.')
		}
		name = "a" + in + "0"
	default: // lengths 62, 63, 64 with two free positions and a free dot position
		base := "abcdefghijklmnopqrstuvwxyz0123456789abcdefghijklmnopqrstuvwxyz01"
		ln := 62 + vsym.Choice("ln", 3)
		b := []byte(base[:ln])
		pos := 3 + vsym.Choice("dot", 4)*15
		b[pos] = vsym.Byte("c1")
		b[ln-1] = vsym.Byte("c2")
		name = string(b)
	}
	err := ValidateBucketName(name)
	want := vhSpecBucketName(name)
	if err == nil {
		vsym.Reach("C17b/accepted")
		vsym.Assert(want, "C17b/invalid-name-accepted")
	} else {
		vsym.Reach("C17b/refused")
		vsym.Assert(!want, "C17b/valid-name-refused")
		vsym.Assert(HasErrorCode(err, ErrInvalidBucketName), "C17b/error-code")
	}
}
