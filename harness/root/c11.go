package gofakes3

import "github.com/johannesboyne/gofakes3/internal/vsym"

// specRange is the overflow-free oracle for ObjectRangeRequest.Range.
// Returns invalid, or (start,length).
func vhSpecRange(start, end int64, fromEnd bool, size int64) (invalid bool, s, l int64) {
	if !fromEnd {
		if start >= size {
			return true, 0, 0
		}
		last := size - 1
		if end != RangeNoEnd && end < last {
			last = end
		}
		return false, start, last - start + 1
	}
	// suffix: last N bytes
	n := end
	if n <= 0 || n > size {
		return true, 0, 0
	}
	return false, size - n, n
}

// VH_C11a: ObjectRangeRequest.Range at full int64 width.
func VH_C11a() {
	o := &ObjectRangeRequest{Start: vsym.Int64("start"), End: vsym.Int64("end"), FromEnd: vsym.Bool("suffix")}
	size := vsym.Int64("size")
	vsym.Assume(size >= 0)
	if !o.FromEnd {
		// exactly parseRangeHeader's post-condition
		vsym.Assume(o.Start >= 0)
		vsym.Assume(o.End == RangeNoEnd || o.End >= o.Start)
	} else {
		vsym.Assume(o.Start == 0)
	}
	r, err := o.Range(size)
	inv, ws, wl := vhSpecRange(o.Start, o.End, o.FromEnd, size)
	if err != nil {
		vsym.Reach("C11a/invalid")
		vsym.Assert(err == ErrInvalidRange, "C11a/error-is-InvalidRange")
		vsym.Assert(inv, "C11a/valid-range-rejected")
		return
	}
	vsym.Reach("C11a/ok")
	vsym.Assert(!inv, "C11a/invalid-range-accepted")
	vsym.Assert(r != nil, "C11a/nil-range")
	if r == nil {
		return
	}
	vsym.Assert(r.Start >= 0 && r.Length >= 1 && r.Length <= size-r.Start, "C11a/safe-slice")
	vsym.Assert(r.Start == ws && r.Length == wl, "C11a/window")
}
