package gofakes3

import "github.com/johannesboyne/gofakes3/internal/vsym"

// specRange is the overflow-free oracle for ObjectRangeRequest.Range.
// Returns invalid, or (start,length).
func vhSpecRange(start, end int64, fromEnd bool, size int64) (invalid bool, s, l int64) {
	if !fromEnd {
		if start >= size {
			return true, 0, 0
		}
		last := size - 1
		if end != RangeNoEnd && end < last {
			last = end
		}
		return false, start, last - start + 1
	}
	// suffix: last N bytes
	n := end
	if n <= 0 || n > size {
		return true, 0, 0
	}
	return false, size - n, n
}

// VH_C11a: ObjectRangeRequest.Range at full int64 width.
func VH_C11a() {
	o := &ObjectRangeRequest{Start: vsym.Int64("start"), End: vsym.Int64("end"), FromEnd: vsym.Bool("suffix")}
	size := vsym.Int64("size")
	vsym.Assume(size >= 0)
	if !o.FromEnd {
		// exactly parseRangeHeader's post-condition
		vsym.Assume(o.Start >= 0)
		vsym.Assume(o.End == RangeNoEnd || o.End >= o.Start)
	} else {
		vsym.Assume(o.Start == 0)
	}
	r, err := o.Range(size)
	vsym.Observe("err", err != nil)
	if r != nil {
		vsym.Observe("start", r.Start)
		vsym.Observe("length", r.Length)
	}
	inv, ws, wl := vhSpecRange(o.Start, o.End, o.FromEnd, size)
	if err != nil {
		vsym.Reach("C11a/invalid")
		vsym.Assert(err == ErrInvalidRange, "C11a/error-is-InvalidRange")
		vsym.Assert(inv, "C11a/valid-range-rejected")
		return
	}
	vsym.Reach("C11a/ok")
	vsym.Assert(!inv, "C11a/invalid-range-accepted")
	vsym.Assert(r != nil, "C11a/nil-range")
	if r == nil {
		return
	}
	vsym.Assert(r.Start >= 0 && r.Length >= 1 && r.Length <= size-r.Start, "C11a/safe-slice")
	vsym.Assert(r.Start == ws && r.Length == wl, "C11a/window")
}

// ---- C11b: parseRangeHeader against an independent recogniser ----

func vhIsSpaceASCII(c byte) bool {
	return c == ' ' || c == '\t' || c == '\n' || c == '\v' || c == '\f' || c == '\r'
}

// vhTrim trims ASCII white space (the harness keeps header bytes < 0x80).
func vhTrim(s string) string {
	for len(s) > 0 && vhIsSpaceASCII(s[0]) {
		s = s[1:]
	}
	for len(s) > 0 && vhIsSpaceASCII(s[len(s)-1]) {
		s = s[:len(s)-1]
	}
	return s
}

// vhParseDec parses [sign] digits that fit in int64. strict forbids a sign.
func vhParseDec(s string, strict bool) (v int64, ok bool) {
	neg := false
	if len(s) > 0 && (s[0] == '+' || s[0] == '-') {
		if strict {
			return 0, false
		}
		neg = s[0] == '-'
		s = s[1:]
	}
	if len(s) == 0 || len(s) > 18 {
		return 0, false
	}
	for i := 0; i < len(s); i++ {
		c := s[i]
		if c < '0' || c > '9' {
			return 0, false
		}
		v = v*10 + int64(c-'0')
	}
	if neg {
		v = -v
	}
	return v, true
}

// vhRecognise: ok=false means "not a (lenient) single range"; multi reports a comma.
func vhRecognise(tail string, strict bool) (req ObjectRangeRequest, ok bool, multi bool) {
	for i := 0; i < len(tail); i++ {
		if tail[i] == ',' {
			return req, false, true
		}
	}
	r := vhTrim(tail)
	dash := -1
	for i := 0; i < len(r); i++ {
		if r[i] == '-' {
			dash = i
			break
		}
	}
	if dash < 0 {
		return req, false, false
	}
	first, last := vhTrim(r[:dash]), vhTrim(r[dash+1:])
	if first == "" {
		n, pok := vhParseDec(last, strict)
		if !pok {
			return req, false, false
		}
		return ObjectRangeRequest{FromEnd: true, End: n}, true, false
	}
	a, pok := vhParseDec(first, strict)
	if !pok || a < 0 {
		return req, false, false
	}
	if last == "" {
		return ObjectRangeRequest{Start: a, End: RangeNoEnd}, true, false
	}
	b, pok := vhParseDec(last, strict)
	if !pok || a > b {
		return req, false, false
	}
	return ObjectRangeRequest{Start: a, End: b}, true, false
}

// VH_C11b: every header "bytes=" + tail (tail up to maxtail free ASCII bytes).
func VH_C11b() {
	n := vsym.Choice("taillen", vsym.Param("maxtail", 3)+1)
	tail := vsym.String("tail", n)
	for i := 0; i < n; i++ {
		vsym.Assume(tail[i] < 0x80)
	}
	unit := "bytes="
	if vsym.Choice("unit", 2) == 1 {
		// a different unit: one free byte replaces the 'b'
		unit = vsym.String("u", 1) + "ytes="
		vsym.Assume(unit[0] != 'b')
	}
	got, err := parseRangeHeader(unit + tail)
	vsym.Observe("err", err != nil)
	if got != nil {
		vsym.Observe("start", got.Start)
		vsym.Observe("end", got.End)
		vsym.Observe("suffix", got.FromEnd)
	}
	if unit != "bytes=" {
		vsym.Assert(err == ErrInvalidRange, "C11b/non-bytes-unit-rejected")
		vsym.Reach("C11b/unit")
		return
	}
	lenient, lok, multi := vhRecognise(tail, false)
	_, sok, _ := vhRecognise(tail, true)
	if err != nil {
		vsym.Reach("C11b/rejected")
		vsym.Assert(!sok, "C11b/valid-header-rejected")
		code := ErrorCode("")
		if e, isErr := err.(Error); isErr {
			code = e.ErrorCode()
		}
		if multi {
			vsym.Assert(code == ErrNotImplemented || code == ErrInvalidRange, "C11b/multi-range-error-code")
		} else {
			vsym.Assert(err == ErrInvalidRange, "C11b/malformed-gives-InvalidRange")
		}
		return
	}
	vsym.Reach("C11b/accepted")
	vsym.Assert(got != nil, "C11b/nil-request")
	if got == nil {
		return
	}
	vsym.Assert(lok && !multi, "C11b/malformed-header-accepted")
	if lok {
		vsym.Assert(got.FromEnd == lenient.FromEnd && got.Start == lenient.Start && got.End == lenient.End, "C11b/parsed-values")
	}
	// post-condition that C11a assumes
	if !got.FromEnd {
		vsym.Assert(got.Start >= 0 && (got.End == RangeNoEnd || got.End >= got.Start), "C11b/postcondition")
	}
}

// VH_C11bt: boundary templates around int64 limits with free digits.
func VH_C11bt() {
	// d1..d3 replace the last three digits of 9223372036854775807
	d := vsym.String("d", 3)
	for i := 0; i < 3; i++ {
		vsym.Assume(d[i] >= '0' && d[i] <= '9')
	}
	big := "9223372036854775" + d
	form := vsym.Choice("form", 4)
	var hdr string
	switch form {
	case 0:
		hdr = "bytes=0-" + big
	case 1:
		hdr = "bytes=" + big + "-"
	case 2:
		hdr = "bytes=-" + big
	default:
		hdr = "bytes=" + big + "-" + big
	}
	got, err := parseRangeHeader(hdr)
	fits := d[0] < '8' || (d[0] == '8' && (d[1] == '0' && d[2] <= '7'))
	if err != nil {
		vsym.Reach("C11bt/rejected")
		vsym.Assert(err == ErrInvalidRange, "C11bt/error-is-InvalidRange")
		vsym.Assert(!fits, "C11bt/valid-header-rejected")
		return
	}
	vsym.Reach("C11bt/accepted")
	vsym.Assert(fits, "C11bt/overflowing-number-accepted")
	vsym.Assert(got != nil, "C11bt/nil")
}
