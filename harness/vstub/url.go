package vstub

import "net/url"

var queries = map[*url.URL]url.Values{}

// RegisterQuery supplies the decoded query parameters of a request URL
// (percent-decoding itself is net/url's and outside the claims).
func RegisterQuery(u *url.URL, q url.Values) { queries[u] = q }

// URLQuery replaces (*url.URL).Query.
func URLQuery(u *url.URL) url.Values {
	if q, ok := queries[u]; ok {
		// callers may mutate the result; hand out a copy
		c := url.Values{}
		for k, v := range q {
			c[k] = append([]string(nil), v...)
		}
		return c
	}
	v, _ := url.ParseQuery(u.RawQuery)
	return v
}
