package vstub

import (
	"errors"

	"github.com/johannesboyne/gofakes3/internal/vsym"
)

var errCodec = errors.New("vstub: cannot decode blob")

// BSON and JSON round trips of the backends' bookkeeping structs are modelled
// as the identity on the Go value (deep copy); the wire formats are outside
// the claims.
func BSONMarshal(in interface{}) ([]byte, error) { return vsym.BlobPut(in), nil }
func BSONUnmarshal(in []byte, out interface{}) error {
	if !vsym.BlobGet(in, out) {
		return errCodec
	}
	return nil
}
func JSONMarshal(in interface{}) ([]byte, error) { return vsym.BlobPut(in), nil }
func JSONUnmarshal(in []byte, out interface{}) error {
	if !vsym.BlobGet(in, out) {
		return errCodec
	}
	return nil
}
