package vstub

import (
	"errors"

	"github.com/johannesboyne/gofakes3/internal/vsym"
)

var errCodec = errors.New("vstub: cannot decode blob")

// BSON and JSON round trips of the backends' bookkeeping structs are modelled
// as the identity on the Go value (deep copy); the wire formats are outside
// the claims.
func BSONMarshal(in interface{}) ([]byte, error) { return vsym.BlobPut(in), nil }
func BSONUnmarshal(in []byte, out interface{}) error {
	if !vsym.BlobGet(in, out) {
		return errCodec
	}
	// mgo's decoder hands out []byte fields as sub-slices of its input. When
	// the input came from a bolt transaction (see BoltBucketGet) those bytes
	// are only valid until it ends: remember them so that the end of the
	// transaction can invalidate them.
	if boltOpenTxs > 0 {
		boltAliased = append(boltAliased, vsym.ByteSlicesOf(out)...)
	}
	return nil
}
func JSONMarshal(in interface{}) ([]byte, error) { return vsym.BlobPut(in), nil }
func JSONUnmarshal(in []byte, out interface{}) error {
	if !vsym.BlobGet(in, out) {
		return errCodec
	}
	return nil
}
