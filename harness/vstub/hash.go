package vstub

import (
	"hash"

	"github.com/johannesboyne/gofakes3/internal/vsym"
)

// md5Hash replaces crypto/md5's digest: it accumulates the message and
// produces vsym.MD5(message): the real digest for concrete bytes, an
// uninterpreted function of the bytes otherwise.
type md5Hash struct{ buf []byte }

func MD5New() hash.Hash                        { return &md5Hash{} }
func MD5Sum(data []byte) [16]byte              { return vsym.MD5(data) }
func (h *md5Hash) Write(p []byte) (int, error) { h.buf = append(h.buf, p...); return len(p), nil }
func (h *md5Hash) Sum(b []byte) []byte {
	s := vsym.MD5(h.buf)
	return append(b, s[:]...)
}
func (h *md5Hash) Reset()         { h.buf = nil }
func (h *md5Hash) Size() int      { return 16 }
func (h *md5Hash) BlockSize() int { return 64 }

type fnvHash struct{ buf []byte }

func FNVNew128a() hash.Hash                    { return &fnvHash{} }
func (h *fnvHash) Write(p []byte) (int, error) { h.buf = append(h.buf, p...); return len(p), nil }
func (h *fnvHash) Sum(b []byte) []byte {
	s := vsym.FNV128a(h.buf)
	return append(b, s[:]...)
}
func (h *fnvHash) Reset()         { h.buf = nil }
func (h *fnvHash) Size() int      { return 16 }
func (h *fnvHash) BlockSize() int { return 1 }
