package vstub

import "log"

func LogPrintf(format string, v ...interface{}) {}
func LogPrintln(v ...interface{})               {}
func LogPrint(v ...interface{})                 {}
func LoggerPrintf(l *log.Logger, format string, v ...interface{}) {
}
func LoggerPrintln(l *log.Logger, v ...interface{}) {}
func LoggerPrint(l *log.Logger, v ...interface{})   {}
