package vstub

import (
	"bytes"
	"errors"
	"mime/multipart"
	"net/http"
)

var formFiles = map[*multipart.FileHeader][]byte{}

// RegisterFormFile attaches content to a harness-built multipart.FileHeader.
func RegisterFormFile(fh *multipart.FileHeader, content []byte) { formFiles[fh] = content }

type memFile struct{ *bytes.Reader }

func (memFile) Close() error { return nil }

// FileHeaderOpen replaces (*multipart.FileHeader).Open.
func FileHeaderOpen(fh *multipart.FileHeader) (multipart.File, error) {
	b, ok := formFiles[fh]
	if !ok {
		return nil, errors.New("vstub: unregistered form file")
	}
	return memFile{bytes.NewReader(b)}, nil
}

// ParseMultipartForm replaces (*http.Request).ParseMultipartForm: the harness
// pre-populates r.MultipartForm (mime/multipart parsing itself is net/http's).
func ParseMultipartForm(r *http.Request, maxMemory int64) error {
	if r.MultipartForm != nil {
		return nil
	}
	return errors.New("vstub: request is not a multipart form")
}
