package vstub

import (
	bolt "go.etcd.io/bbolt"
)

// A model of the part of bbolt's API that s3bolt uses: sorted top-level
// buckets of sorted key/value pairs, Update transactions that commit only
// when the callback returns nil, read-only View transactions. Documented
// error cases are reproduced. It is trusted base, validated natively against
// real bbolt by a differential self-test.

type boltBkt struct {
	name string
	keys []string
	vals [][]byte
}

type boltState struct{ buckets []*boltBkt } // sorted by name

type boltTx struct {
	db       *bolt.DB
	st       *boltState
	writable bool
}

type boltBktRef struct {
	tx  *bolt.Tx
	bkt *boltBkt
}

type boltCur struct {
	ref *boltBktRef
	pos int
}

var (
	boltDBs  = map[*bolt.DB]*boltState{}
	boltTxs  = map[*bolt.Tx]*boltTx{}
	boltBkts = map[*bolt.Bucket]*boltBktRef{}
	boltCurs = map[*bolt.Cursor]*boltCur{}
)

// BoltNewDB creates an empty modelled database.
func BoltNewDB() *bolt.DB {
	db := new(bolt.DB)
	boltDBs[db] = &boltState{}
	return db
}

func (s *boltState) clone() *boltState {
	c := &boltState{}
	for _, b := range s.buckets {
		nb := &boltBkt{name: b.name, keys: append([]string(nil), b.keys...), vals: append([][]byte(nil), b.vals...)}
		c.buckets = append(c.buckets, nb)
	}
	return c
}

func (s *boltState) find(name string) (int, bool) {
	for i, b := range s.buckets {
		if b.name == name {
			return i, true
		}
		if b.name > name {
			return i, false
		}
	}
	return len(s.buckets), false
}

// Bytes handed out inside a transaction (values returned by Get and cursors,
// and []byte fields decoded from them without copying) point into the
// database's memory map and are only valid until the transaction ends. The
// model invalidates them then: code that keeps them sees garbage, as it can
// with the real database once pages are reused.
var (
	boltOpenTxs int
	boltAliased [][]byte
)

func boltEndTx() {
	boltOpenTxs--
	if boltOpenTxs > 0 {
		return
	}
	for _, s := range boltAliased {
		for i := range s {
			s[i] = 0xDD
		}
	}
	boltAliased = nil
}

func BoltUpdate(db *bolt.DB, fn func(*bolt.Tx) error) error {
	st := boltDBs[db]
	if st == nil {
		return bolt.ErrDatabaseNotOpen
	}
	tx := new(bolt.Tx)
	m := &boltTx{db: db, st: st.clone(), writable: true}
	boltTxs[tx] = m
	boltOpenTxs++
	err := fn(tx)
	boltEndTx()
	delete(boltTxs, tx)
	if err != nil {
		return err // rollback: the working copy is dropped
	}
	boltDBs[db] = m.st
	return nil
}

func BoltView(db *bolt.DB, fn func(*bolt.Tx) error) error {
	st := boltDBs[db]
	if st == nil {
		return bolt.ErrDatabaseNotOpen
	}
	tx := new(bolt.Tx)
	boltTxs[tx] = &boltTx{db: db, st: st, writable: false}
	boltOpenTxs++
	err := fn(tx)
	boltEndTx()
	delete(boltTxs, tx)
	return err
}

func BoltTxWritable(tx *bolt.Tx) bool { return boltTxs[tx].writable }

func boltRef(tx *bolt.Tx, b *boltBkt) *bolt.Bucket {
	h := new(bolt.Bucket)
	boltBkts[h] = &boltBktRef{tx: tx, bkt: b}
	return h
}

func BoltTxBucket(tx *bolt.Tx, name []byte) *bolt.Bucket {
	m := boltTxs[tx]
	i, ok := m.st.find(string(name))
	if !ok {
		return nil
	}
	return boltRef(tx, m.st.buckets[i])
}

func BoltTxCreateBucket(tx *bolt.Tx, name []byte) (*bolt.Bucket, error) {
	m := boltTxs[tx]
	if !m.writable {
		return nil, bolt.ErrTxNotWritable
	}
	if len(name) == 0 {
		return nil, bolt.ErrBucketNameRequired
	}
	i, ok := m.st.find(string(name))
	if ok {
		return nil, bolt.ErrBucketExists
	}
	nb := &boltBkt{name: string(name)}
	m.st.buckets = append(m.st.buckets, nil)
	copy(m.st.buckets[i+1:], m.st.buckets[i:])
	m.st.buckets[i] = nb
	return boltRef(tx, nb), nil
}

func BoltTxCreateBucketIfNotExists(tx *bolt.Tx, name []byte) (*bolt.Bucket, error) {
	b, err := BoltTxCreateBucket(tx, name)
	if err == bolt.ErrBucketExists {
		return BoltTxBucket(tx, name), nil
	}
	return b, err
}

func BoltTxDeleteBucket(tx *bolt.Tx, name []byte) error {
	m := boltTxs[tx]
	if !m.writable {
		return bolt.ErrTxNotWritable
	}
	i, ok := m.st.find(string(name))
	if !ok {
		return bolt.ErrBucketNotFound
	}
	m.st.buckets = append(m.st.buckets[:i], m.st.buckets[i+1:]...)
	return nil
}

func BoltTxForEach(tx *bolt.Tx, fn func(name []byte, b *bolt.Bucket) error) error {
	m := boltTxs[tx]
	// iterate over a snapshot of the bucket list
	bs := append([]*boltBkt(nil), m.st.buckets...)
	for _, b := range bs {
		if err := fn([]byte(b.name), boltRef(tx, b)); err != nil {
			return err
		}
	}
	return nil
}

func (b *boltBkt) find(key string) (int, bool) {
	for i, k := range b.keys {
		if k == key {
			return i, true
		}
		if k > key {
			return i, false
		}
	}
	return len(b.keys), false
}

func BoltBucketGet(h *bolt.Bucket, key []byte) []byte {
	r := boltBkts[h]
	i, ok := r.bkt.find(string(key))
	if !ok {
		return nil
	}
	return r.bkt.vals[i]
}

func BoltBucketPut(h *bolt.Bucket, key, value []byte) error {
	r := boltBkts[h]
	if !boltTxs[r.tx].writable {
		return bolt.ErrTxNotWritable
	}
	if len(key) == 0 {
		return bolt.ErrKeyRequired
	}
	if len(key) > bolt.MaxKeySize {
		return bolt.ErrKeyTooLarge
	}
	if int64(len(value)) > bolt.MaxValueSize {
		return bolt.ErrValueTooLarge
	}
	b := r.bkt
	k := string(key)
	v := append([]byte(nil), value...)
	i, ok := b.find(k)
	if ok {
		b.vals[i] = v
		return nil
	}
	b.keys = append(b.keys, "")
	copy(b.keys[i+1:], b.keys[i:])
	b.keys[i] = k
	b.vals = append(b.vals, nil)
	copy(b.vals[i+1:], b.vals[i:])
	b.vals[i] = v
	return nil
}

func BoltBucketDelete(h *bolt.Bucket, key []byte) error {
	r := boltBkts[h]
	if !boltTxs[r.tx].writable {
		return bolt.ErrTxNotWritable
	}
	b := r.bkt
	i, ok := b.find(string(key))
	if !ok {
		return nil
	}
	b.keys = append(b.keys[:i], b.keys[i+1:]...)
	b.vals = append(b.vals[:i], b.vals[i+1:]...)
	return nil
}

func BoltBucketCursor(h *bolt.Bucket) *bolt.Cursor {
	c := new(bolt.Cursor)
	boltCurs[c] = &boltCur{ref: boltBkts[h], pos: -1}
	return c
}

func BoltCursorFirst(c *bolt.Cursor) ([]byte, []byte) {
	m := boltCurs[c]
	m.pos = 0
	return boltCurAt(m)
}

func BoltCursorNext(c *bolt.Cursor) ([]byte, []byte) {
	m := boltCurs[c]
	m.pos++
	return boltCurAt(m)
}

func boltCurAt(m *boltCur) ([]byte, []byte) {
	b := m.ref.bkt
	if m.pos < 0 || m.pos >= len(b.keys) {
		return nil, nil
	}
	return []byte(b.keys[m.pos]), b.vals[m.pos]
}

// BoltCursorSeek moves to the first key >= seek (nil, nil past the end).
func BoltCursorSeek(c *bolt.Cursor, seek []byte) ([]byte, []byte) {
	m := boltCurs[c]
	i, _ := m.ref.bkt.find(string(seek))
	m.pos = i
	return boltCurAt(m)
}

// BoltCursorDelete removes the pair the cursor is on.
func BoltCursorDelete(c *bolt.Cursor) error {
	m := boltCurs[c]
	if !boltTxs[m.ref.tx].writable {
		return bolt.ErrTxNotWritable
	}
	b := m.ref.bkt
	if m.pos < 0 || m.pos >= len(b.keys) {
		return nil
	}
	b.keys = append(b.keys[:m.pos], b.keys[m.pos+1:]...)
	b.vals = append(b.vals[:m.pos], b.vals[m.pos+1:]...)
	return nil
}
