package vstub

import "github.com/johannesboyne/gofakes3/internal/vsym"

// ErrorsIs is errors.Is without the reflection-based comparability probe.
func ErrorsIs(err, target error) bool {
	if err == nil || target == nil {
		return err == target
	}
	cmp := vsym.Comparable(target)
	for {
		if cmp && vsym.Comparable(err) && err == target {
			return true
		}
		if x, ok := err.(interface{ Is(error) bool }); ok && x.Is(target) {
			return true
		}
		switch x := err.(type) {
		case interface{ Unwrap() error }:
			err = x.Unwrap()
			if err == nil {
				return false
			}
		case interface{ Unwrap() []error }:
			for _, e := range x.Unwrap() {
				if ErrorsIs(e, target) {
					return true
				}
			}
			return false
		default:
			return false
		}
	}
}
