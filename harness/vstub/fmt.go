// Package vstub holds the Go-level environment stubs that the gosym engine
// substitutes for callees it cannot or should not execute (see redirects.json).
// It is only ever loaded by the engine (symbolic flavour); native replays run
// the real callees.
package vstub

import (
	"io"

	"github.com/johannesboyne/gofakes3/internal/vsym"
)

type stringer interface{ String() string }

func itoa(v int64) string {
	if v == 0 {
		return "0"
	}
	neg := v < 0
	var u uint64
	if neg {
		u = uint64(-v)
	} else {
		u = uint64(v)
	}
	s := utoa(u, 10, false)
	if neg {
		return "-" + s
	}
	return s
}

const lowerDigits = "0123456789abcdefghijklmnopqrstuvwxyz"
const upperDigits = "0123456789ABCDEFGHIJKLMNOPQRSTUVWXYZ"

// utoa formats u in the given base. The number of digits is found by
// comparing u with the powers of the base (so that a symbolic u forks on plain
// comparisons, never on a condition that contains a division), the digits are
// then table lookups.
func utoa(u uint64, base uint64, upper bool) string {
	if u == 0 {
		return "0"
	}
	n := 1
	for p := base; ; n++ {
		if u < p {
			break
		}
		if p > ^uint64(0)/base {
			n++ // p*base overflows: u has one digit more than p and that is the maximum
			break
		}
		p *= base
	}
	digits := lowerDigits
	if upper {
		digits = upperDigits
	}
	buf := make([]byte, n)
	for i := n - 1; i >= 0; i-- {
		buf[i] = digits[u%base]
		u /= base
	}
	return string(buf)
}

func quote(s string) string {
	out := []byte{'"'}
	for i := 0; i < len(s); i++ {
		c := s[i]
		switch {
		case c == '"' || c == '\\':
			out = append(out, '\\', c)
		case c == '\n':
			out = append(out, '\\', 'n')
		case c < 0x20 || c >= 0x7f:
			out = append(out, '\\', 'x', "0123456789abcdef"[c>>4], "0123456789abcdef"[c&15])
		default:
			out = append(out, c)
		}
	}
	return string(append(out, '"'))
}

func hexBytes(b []byte, upper bool) string {
	digits := "0123456789abcdef"
	if upper {
		digits = "0123456789ABCDEF"
	}
	out := make([]byte, 0, 2*len(b))
	for _, c := range b {
		out = append(out, digits[c>>4], digits[c&15])
	}
	return string(out)
}

// formatOne renders operand a for verb.
func formatOne(verb byte, a interface{}, plus bool) string {
	if a == nil {
		return "<nil>"
	}
	k := vsym.KindOf(a)
	switch verb {
	case 'd':
		switch k {
		case vsym.KInt:
			return itoa(vsym.IntOf(a))
		case vsym.KUint:
			return utoa(vsym.UintOf(a), 10, false)
		}
		if s, ok := a.(stringer); ok { // *big.Int
			return s.String()
		}
	case 'x', 'X':
		switch k {
		case vsym.KInt:
			v := vsym.IntOf(a)
			if v < 0 {
				return "-" + utoa(uint64(-v), 16, verb == 'X')
			}
			return utoa(uint64(v), 16, verb == 'X')
		case vsym.KUint:
			return utoa(vsym.UintOf(a), 16, verb == 'X')
		case vsym.KString:
			return hexBytes([]byte(vsym.StrOf(a)), verb == 'X')
		case vsym.KBytes:
			return hexBytes(vsym.BytesOf(a), verb == 'X')
		}
	case 't':
		if k == vsym.KBool {
			if vsym.BoolOf(a) {
				return "true"
			}
			return "false"
		}
	case 'q':
		if e, ok := a.(error); ok {
			return quote(e.Error())
		}
		if s, ok := a.(stringer); ok {
			return quote(s.String())
		}
		if k == vsym.KString {
			return quote(vsym.StrOf(a))
		}
		if k == vsym.KBytes {
			return quote(string(vsym.BytesOf(a)))
		}
	case 's', 'v', 'w':
		if e, ok := a.(error); ok {
			if vsym.IsNilPtr(a) {
				return "<nil>"
			}
			return e.Error()
		}
		if s, ok := a.(stringer); ok {
			if vsym.IsNilPtr(a) {
				return "<nil>"
			}
			return s.String()
		}
		switch k {
		case vsym.KString:
			return vsym.StrOf(a)
		case vsym.KBytes:
			if verb == 's' {
				return string(vsym.BytesOf(a))
			}
			return "[bytes]"
		case vsym.KInt:
			return itoa(vsym.IntOf(a))
		case vsym.KUint:
			return utoa(vsym.UintOf(a), 10, false)
		case vsym.KBool:
			if vsym.BoolOf(a) {
				return "true"
			}
			return "false"
		}
		return "{" + vsym.TypeName(a) + "}"
	}
	return "%!" + string([]byte{verb}) + "(" + vsym.TypeName(a) + ")"
}

func Sprintf(format string, a ...interface{}) string {
	var out []byte
	argi := 0
	n := len(format)
	for i := 0; i < n; i++ {
		c := format[i]
		if c != '%' {
			out = append(out, c)
			continue
		}
		i++
		if i >= n {
			out = append(out, "%!(NOVERB)"...)
			break
		}
		zero, plus, minus := false, false, false
		for ; i < n; i++ {
			f := format[i]
			if f == '0' {
				zero = true
			} else if f == '+' {
				plus = true
			} else if f == '-' {
				minus = true
			} else if f == ' ' || f == '#' {
			} else {
				break
			}
		}
		width := 0
		for ; i < n && format[i] >= '0' && format[i] <= '9'; i++ {
			width = width*10 + int(format[i]-'0')
		}
		if i < n && format[i] == '.' { // precision: parsed and ignored
			i++
			for ; i < n && format[i] >= '0' && format[i] <= '9'; i++ {
			}
		}
		if i >= n {
			out = append(out, "%!(NOVERB)"...)
			break
		}
		verb := format[i]
		if verb == '%' {
			out = append(out, '%')
			continue
		}
		if argi >= len(a) {
			out = append(out, "%!"...)
			out = append(out, verb)
			out = append(out, "(MISSING)"...)
			continue
		}
		s := formatOne(verb, a[argi], plus)
		argi++
		if pad := width - len(s); pad > 0 {
			if minus {
				out = append(out, s...)
				for ; pad > 0; pad-- {
					out = append(out, ' ')
				}
				continue
			}
			p := byte(' ')
			if zero {
				p = '0'
				if len(s) > 0 && s[0] == '-' {
					out = append(out, '-')
					s = s[1:]
				}
			}
			for ; pad > 0; pad-- {
				out = append(out, p)
			}
		}
		out = append(out, s...)
	}
	if argi < len(a) {
		out = append(out, "%!(EXTRA)"...)
	}
	return string(out)
}

func Sprint(a ...interface{}) string {
	var out []byte
	for i, x := range a {
		if i > 0 && vsym.KindOf(x) != vsym.KString && vsym.KindOf(a[i-1]) != vsym.KString {
			out = append(out, ' ')
		}
		out = append(out, formatOne('v', x, false)...)
	}
	return string(out)
}

func Sprintln(a ...interface{}) string {
	var out []byte
	for i, x := range a {
		if i > 0 {
			out = append(out, ' ')
		}
		out = append(out, formatOne('v', x, false)...)
	}
	return string(append(out, '\n'))
}

type fmtError struct {
	msg  string
	wrap error
}

func (e *fmtError) Error() string { return e.msg }
func (e *fmtError) Unwrap() error { return e.wrap }

func Errorf(format string, a ...interface{}) error {
	fe := &fmtError{msg: Sprintf(format, a...)}
	for i := 0; i+1 < len(format); i++ {
		if format[i] == '%' && format[i+1] == 'w' {
			// find the matching operand (count verbs before it)
			k := 0
			for j := 0; j < i; j++ {
				if format[j] == '%' {
					if format[j+1] == '%' {
						j++
					} else {
						k++
					}
				}
			}
			if k < len(a) {
				if e, ok := a[k].(error); ok {
					fe.wrap = e
				}
			}
		}
	}
	return fe
}

func Fprintf(w io.Writer, format string, a ...interface{}) (int, error) {
	return w.Write([]byte(Sprintf(format, a...)))
}

func Fprint(w io.Writer, a ...interface{}) (int, error) {
	return w.Write([]byte(Sprint(a...)))
}

func Fprintln(w io.Writer, a ...interface{}) (int, error) {
	return w.Write([]byte(Sprintln(a...)))
}

func Printf(format string, a ...interface{}) (int, error) { return 0, nil }
func Println(a ...interface{}) (int, error)               { return 0, nil }
func Print(a ...interface{}) (int, error)                 { return 0, nil }
