package vstub

import (
	"encoding/xml"
	"errors"
	"io"

	"github.com/johannesboyne/gofakes3"
)

// XMLRecorder is implemented by the harness response recorder: responses are
// observed as typed values, not as XML text.
type XMLRecorder interface {
	RecordXML(v interface{})
}

var encWriters = map[*xml.Encoder]io.Writer{}

func XMLNewEncoder(w io.Writer) *xml.Encoder {
	e := new(xml.Encoder)
	encWriters[e] = w
	return e
}

func XMLIndent(e *xml.Encoder, prefix, indent string) {}

func XMLEncode(e *xml.Encoder, v interface{}) error {
	w := encWriters[e]
	if r, ok := w.(XMLRecorder); ok {
		r.RecordXML(v)
		return nil
	}
	// unknown writer: emit a placeholder so that "something was written"
	_, err := w.Write([]byte("<xml/>"))
	return err
}

// ---- decoding: the harness registers typed request bodies ----

// XMLBody is a registered request body.
type XMLBody struct {
	Malformed bool
	Value     interface{} // *gofakes3.CompleteMultipartUploadRequest, *gofakes3.DeleteRequest, *VersioningBody
}

// VersioningBody carries the raw element texts of a VersioningConfiguration.
type VersioningBody struct {
	HasStatus bool
	Status    string
	HasMFA    bool
	MFA       string
}

const xmlMagic = "\x00VXML"

var xmlBodies []*XMLBody

// RegisterXMLBody returns the bytes to use as the request body.
func RegisterXMLBody(b *XMLBody) []byte {
	xmlBodies = append(xmlBodies, b)
	return append([]byte(xmlMagic), byte(len(xmlBodies)-1))
}

var errSyntax = errors.New("XML syntax error (injected)")

var decReaders = map[*xml.Decoder]io.Reader{}
var decPending = map[*xml.Decoder]string{}

func XMLNewDecoder(r io.Reader) *xml.Decoder {
	d := new(xml.Decoder)
	decReaders[d] = r
	return d
}

func XMLDecoderDecode(d *xml.Decoder, v interface{}) error {
	data, err := io.ReadAll(decReaders[d])
	if err != nil {
		return err
	}
	return XMLUnmarshal(data, v)
}

// XMLDecodeElement serves the custom UnmarshalXML methods of the repo: it
// delivers the raw element text registered for this element.
func XMLDecodeElement(d *xml.Decoder, v interface{}, start *xml.StartElement) error {
	if sp, ok := v.(*string); ok {
		*sp = decPending[d]
		return nil
	}
	return errors.New("vstub: unsupported DecodeElement target")
}

func XMLUnmarshal(data []byte, v interface{}) error {
	if len(data) != len(xmlMagic)+1 || string(data[:len(xmlMagic)]) != xmlMagic {
		if len(data) == 0 {
			return io.EOF
		}
		return errSyntax
	}
	b := xmlBodies[int(data[len(xmlMagic)])]
	if b.Malformed {
		return errSyntax
	}
	switch dst := v.(type) {
	case *gofakes3.CompleteMultipartUploadRequest:
		src, ok := b.Value.(*gofakes3.CompleteMultipartUploadRequest)
		if !ok {
			return nil // other document: no matching elements
		}
		dst.Parts = append([]gofakes3.CompletedPart(nil), src.Parts...)
	case *gofakes3.DeleteRequest:
		src, ok := b.Value.(*gofakes3.DeleteRequest)
		if !ok {
			return nil
		}
		dst.Objects = append([]gofakes3.ObjectID(nil), src.Objects...)
		dst.Quiet = src.Quiet
	case *gofakes3.VersioningConfiguration:
		src, ok := b.Value.(*VersioningBody)
		if !ok {
			return nil
		}
		d := new(xml.Decoder)
		if src.HasStatus {
			decPending[d] = src.Status
			if err := dst.Status.UnmarshalXML(d, xml.StartElement{}); err != nil {
				return err
			}
		}
		if src.HasMFA {
			decPending[d] = src.MFA
			if err := dst.MFADelete.UnmarshalXML(d, xml.StartElement{}); err != nil {
				return err
			}
		}
	default:
		return errors.New("vstub: unsupported XML target")
	}
	return nil
}
