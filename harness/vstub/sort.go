package vstub

import "github.com/johannesboyne/gofakes3/internal/vsym"

// SortSlice replaces sort.Slice / sort.SliceStable (which swap elements
// through reflection) by an insertion sort over the same less function.
func SortSlice(x interface{}, less func(i, j int) bool) {
	n := vsym.LenOf(x)
	for i := 1; i < n; i++ {
		for j := i; j > 0 && less(j, j-1); j-- {
			vsym.SwapElems(x, j, j-1)
		}
	}
}
