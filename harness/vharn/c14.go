package vharn

import (
	"net/http"
	"net/url"

	"github.com/johannesboyne/gofakes3/internal/vsym"
)

type liveUpload struct {
	key string
	id  string
	seq int
}

// VH_C14b: ListMultipartUploads after a history of initiate/abort over a few
// keys; prefix/delimiter filtering; page walk with the returned markers.
func VH_C14b() {
	h, _ := newMemServer()
	vsym.Assert(Do(h, Req{Method: "PUT", Path: "/bkt"}).Code() == 200, "C14b/create-bucket")
	keys := []string{"0", "a/x", "a/y", "b"} // a key before the common prefix a/, two under it, one after
	var live []liveUpload
	steps := vsym.Param("steps", 3)
	seq := 0
	for i := 0; i < steps; i++ {
		if len(live) > 0 && vsym.Choice("op", 2) == 1 {
			j := vsym.Choice("abort", len(live))
			u := live[j]
			r := Do(h, Req{Method: "DELETE", Path: "/bkt/" + u.key, Query: url.Values{"uploadId": {u.id}}})
			vsym.Assert(r.Code() == 204, "C14b/abort-status")
			live = append(append([]liveUpload(nil), live[:j]...), live[j+1:]...)
			continue
		}
		k := keys[vsym.Choice("key", len(keys))]
		id := initiate(h, k, http.Header{})
		seq++
		live = append(live, liveUpload{k, id, seq})
	}
	if len(live) == 0 && seq == 0 {
		vsym.Assume(false)
	}
	// order by key, then initiation
	for i := 1; i < len(live); i++ {
		for j := i; j > 0 && (live[j].key < live[j-1].key || (live[j].key == live[j-1].key && live[j].seq < live[j-1].seq)); j-- {
			live[j], live[j-1] = live[j-1], live[j]
		}
	}
	var prefix string
	switch vsym.Choice("prefix", 4) {
	case 1:
		prefix = "a"
	case 2:
		prefix = "a/"
	case 3:
		prefix = "b"
	}
	hasDelim := vsym.Choice("hasdelim", 2) == 1
	var wantIDs, wantCPs []string
	for _, u := range live {
		ok, common, cp := specMatch(u.key, prefix, hasDelim, '/')
		if !ok {
			continue
		}
		if common {
			if len(wantCPs) == 0 || wantCPs[len(wantCPs)-1] != cp {
				wantCPs = append(wantCPs, cp)
			}
			continue
		}
		wantIDs = append(wantIDs, u.id)
	}
	maxUploads := 1 + vsym.Choice("maxuploads", len(wantIDs)+1)
	var gotIDs, gotCPs []string
	keyMarker, idMarker := "", ""
	for page := 0; ; page++ {
		vsym.Assert(page <= len(wantIDs)+2, "C14b/terminates")
		if page > len(wantIDs)+2 {
			return
		}
		q := url.Values{"uploads": {""}, "max-uploads": {itoa(maxUploads)}}
		if prefix != "" {
			q.Set("prefix", prefix)
		}
		if hasDelim {
			q.Set("delimiter", "/")
		}
		if keyMarker != "" {
			q.Set("key-marker", keyMarker)
			q.Set("upload-id-marker", idMarker)
		}
		r := Do(h, Req{Method: "GET", Path: "/bkt", Query: q})
		vsym.Assert(r.Code() == 200, "C14b/status")
		v := r.Uploads()
		vsym.Assert(v.OK, "C14b/document")
		if !v.OK {
			return
		}
		vsym.Assert(len(v.IDs) <= maxUploads, "C14b/page-size")
		gotIDs = append(gotIDs, v.IDs...)
		for _, p := range v.Prefixes {
			dup := false
			for _, g := range gotCPs {
				if g == p {
					dup = true
				}
			}
			if !dup {
				gotCPs = append(gotCPs, p)
			}
		}
		if !v.IsTruncated {
			break
		}
		vsym.Reach("C14b/truncated")
		vsym.Assert(v.NextKeyMarker != "", "C14b/next-markers-present")
		if v.NextKeyMarker == "" {
			return
		}
		keyMarker, idMarker = v.NextKeyMarker, v.NextUploadIDMarker
	}
	vsym.Assert(sameStrings(gotIDs, wantIDs), "C14b/uploads-exact-and-ordered")
	vsym.Assert(sameStrings(gotCPs, wantCPs), "C14b/common-prefixes")
	vsym.Reach("C14b/done")
}
