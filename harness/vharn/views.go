package vharn

// Mirror structures of the XML result documents (the fields the oracles use).

type ListView struct {
	OK          bool
	V2          bool
	Keys        []string
	Sizes       []int64
	ETags       []string
	Prefixes    []string
	IsTruncated bool
	NextMarker  string
	NextToken   string
	KeyCount    int64
	Prefix      string
	Delimiter   string
	MaxKeys     int64
}

type VersionEntry struct {
	Key       string
	VersionID string
	IsLatest  bool
	Marker    bool
	Size      int64
	ETag      string
}

type VersionsView struct {
	OK                  bool
	Items               []VersionEntry
	Prefixes            []string
	IsTruncated         bool
	NextKeyMarker       string
	NextVersionIDMarker string
}

type UploadsView struct {
	OK                 bool
	Keys               []string
	IDs                []string
	Prefixes           []string
	IsTruncated        bool
	NextKeyMarker      string
	NextUploadIDMarker string
}

type PartsView struct {
	OK          bool
	Numbers     []int
	Sizes       []int64
	ETags       []string
	IsTruncated bool
	NextMarker  int
}
