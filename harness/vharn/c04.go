package vharn

import (
	"github.com/johannesboyne/gofakes3"
	"net/http"
	"net/url"

	"github.com/johannesboyne/gofakes3/internal/vsym"
)

// VH_C04_mem: paginated listing on s3mem: follow the continuation the server
// returns until IsTruncated is false; the concatenation must equal the
// unpaginated listing, every page respects max-keys, markers advance.
func VH_C04_mem() {
	h, b := newMemServer()
	hasDelim := vsym.Choice("hasdelim", 2) == 1
	live := buildBucket(b, vsym.Param("maxkeys", 3), vsym.Param("maxkeylen", 2), '/', hasDelim, true)
	pl := vsym.Choice("prefixlen", vsym.Param("maxprefix", 1)+1)
	prefix := vsym.String("prefix", pl)
	for j := 0; j < pl; j++ {
		vsym.Assume(prefix[j] >= 0x20 && prefix[j] < 0x7f)
	}
	if hasDelim && pl > 0 {
		vsym.Assume(prefix[0] != '/')
	}
	proto := vsym.Choice("proto", 3) // 0: V1, 1: V2 continuation token, 2: V2 start-after then tokens
	start := ""
	if !hasDelim && (proto == 0 || proto == 2) && vsym.Choice("hasstart", 2) == 1 {
		start = vsym.String("start", 1+vsym.Choice("startlen", 2))
		for j := 0; j < len(start); j++ {
			vsym.Assume(start[j] >= 0x20 && start[j] < 0x7f)
		}
	}
	keepStart := proto == 2 && start != "" && vsym.Choice("keepstart", 2) == 1
	wantKeys, _, _, wantCPs := expectedListing(live, prefix, hasDelim, '/', start)
	total := len(wantKeys) + len(wantCPs)
	maxKeys := 1 + vsym.Choice("maxkeys", total+1)

	var gotKeys, gotCPs []string
	marker, token := start, ""
	pages := 0
	for {
		pages++
		vsym.Assert(pages <= total+2, "C04/terminates")
		if pages > total+2 {
			return
		}
		q := url.Values{"max-keys": {itoa(maxKeys)}}
		if pl > 0 {
			q.Set("prefix", prefix)
		}
		if hasDelim {
			q.Set("delimiter", "/")
		}
		switch proto {
		case 0:
			if marker != "" {
				q.Set("marker", marker)
			}
		default:
			q.Set("list-type", "2")
			if token != "" {
				q.Set("continuation-token", token)
			}
			// SDK paginators repeat start-after on every page: the token decides
			if start != "" && (token == "" || keepStart) {
				q.Set("start-after", start)
			}
		}
		r := Do(h, Req{Method: "GET", Path: "/bkt", Query: q, Header: http.Header{}})
		vsym.Assert(r.Code() == 200, "C04/status")
		v := r.List()
		vsym.Assert(v.OK, "C04/document")
		if !v.OK {
			return
		}
		vsym.Assert(len(v.Keys)+len(v.Prefixes) <= maxKeys, "C04/page-size")
		gotKeys = append(gotKeys, v.Keys...)
		for _, p := range v.Prefixes {
			gotCPs = append(gotCPs, p)
		}
		if !v.IsTruncated {
			break
		}
		vsym.Reach("C04/truncated-page")
		if proto == 0 {
			next := v.NextMarker
			if next == "" && len(v.Keys) > 0 {
				next = v.Keys[len(v.Keys)-1]
			}
			vsym.Assert(next != "" && next > marker, "C04/marker-advances")
			if next == "" {
				return
			}
			marker = next
		} else {
			vsym.Assert(v.NextToken != "" && v.NextToken != token, "C04/token-advances")
			if v.NextToken == "" {
				return
			}
			token = v.NextToken
		}
	}
	vsym.Assert(sameStrings(gotKeys, wantKeys), "C04/concatenation-keys")
	vsym.Assert(sameStrings(gotCPs, wantCPs), "C04/concatenation-common-prefixes")
	vsym.Reach("C04/done")
}

// VH_C04f: backends that do not paginate (bolt, fs) answer a paged request
// with the complete listing and IsTruncated=false, or with NotImplemented when
// configured to refuse.
func VH_C04f() {
	kind := backendKind()
	refuse := vsym.Choice("refuse", 2) == 1
	var h http.Handler
	var b gofakes3.Backend
	if refuse {
		h, b = newServerKind(kind, gofakes3.WithUnimplementedPageError())
	} else {
		h, b = newServerKind(kind)
	}
	live := buildBucketKind(b, kind, 2, 2, '/', false, true)
	q := url.Values{}
	switch vsym.Choice("page", 4) {
	case 0:
		q.Set("max-keys", "1")
	case 1:
		q.Set("marker", "a")
	case 2:
		q.Set("list-type", "2")
		q.Set("start-after", "a")
	default:
		q.Set("list-type", "2")
		q.Set("max-keys", "1")
	}
	r := Do(h, Req{Method: "GET", Path: "/bkt", Query: q, Header: http.Header{}})
	if refuse {
		vsym.Assert(r.Code() == 501 && r.ErrCode() == "NotImplemented", "C04f/refusal")
		vsym.Reach("C04f/refused")
		return
	}
	vsym.Assert(r.Code() == 200, "C04f/status")
	v := r.List()
	keys, _, _, _ := expectedListing(live, "", false, 0, "")
	vsym.Assert(v.OK && sameStrings(v.Keys, keys), "C04f/complete-listing")
	vsym.Assert(!v.IsTruncated, "C04f/not-truncated")
	vsym.Reach("C04f/complete")
}
