package vharn

import (
	"net/http"
	"net/url"

	"github.com/johannesboyne/gofakes3"

	"github.com/johannesboyne/gofakes3/internal/vsym"
)

const chunkSig = "ad80c730a21e5b8d04586a2213dd63b9a0e99e0e2307b0ade35a65485a288648"

func frameChunks(chunks [][]byte) []byte {
	var s []byte
	for _, c := range chunks {
		s = append(s, hexdigits[len(c)&15])
		s = append(s, ";chunk-signature="...)
		s = append(s, chunkSig...)
		s = append(s, "\r\n"...)
		s = append(s, c...)
		s = append(s, "\r\n"...)
	}
	s = append(s, "0;chunk-signature="...)
	s = append(s, chunkSig...)
	s = append(s, "\r\n\r\n"...)
	return s
}

// VH_C12c: aws-chunked PUT through ServeHTTP on the backend tier selected by
// "backend": a well-formed stream with the right declared decoded length is
// stored as the concatenation of the chunk payloads; a malformed stream or a
// wrong declared length is rejected and nothing partial is stored.
func VH_C12c() {
	kind := backendKind()
	h, _ := newServerKind(kind)
	mkBucket(h, kind, "C12c")
	if vsym.Choice("prior", 2) == 1 {
		vsym.Assert(Do(h, BodyReq("PUT", "/bkt/k", http.Header{"X-Amz-Meta-A": {"old"}}, []byte("old"))).Code() == 200, "C12c/prior")
	}
	// zero chunks: the empty payload, framed as the final chunk alone
	nch := vsym.Choice("nchunks", vsym.Param("maxchunks", 2)+1)
	var chunks [][]byte
	var payload []byte
	// one chunk may be ten bytes long, so that its size is a hex letter, written in either case
	big := nch == 1 && vsym.Choice("tenbytes", 2) == 1
	for i := 0; i < nch; i++ {
		n := 1 + vsym.Choice("csz", vsym.Param("maxchunk", 2))
		if big {
			n = 10
		}
		c := vsym.Bytes("cd", n)
		chunks = append(chunks, c)
		payload = append(payload, c...)
	}
	stream := frameChunks(chunks)
	if big && vsym.Choice("uppercase", 2) == 1 {
		stream[0] = 'A'
	}
	wellFormed := true
	damage := vsym.Choice("damage", 4)
	if (nch == 0 || big) && damage != 0 {
		vsym.Assume(false) // the damage variants below are about a stream that has a data chunk
	}
	switch damage {
	case 0:
	case 1: // the byte after the size is free (a ';' keeps it well formed)
		stream[1] = vsym.Byte("sep")
		wellFormed = stream[1] == ';'
	case 2: // the size byte is free but not another hex digit (that would be a different, valid framing)
		c := vsym.Byte("sizebyte")
		isHex := (c >= '0' && c <= '9') || (c >= 'a' && c <= 'f') || (c >= 'A' && c <= 'F')
		right := c == hexdigits[len(chunks[0])&15]
		vsym.Assume(right || !isHex)
		// fmt's %x verb also skips leading blanks, accepts a sign and an underscore
		vsym.Assume(c != ' ' && c != '\t' && c != '\r' && c != '\v' && c != '\f' && c != '+' && c != 0x85 && c != 0xA0)
		stream[0] = c
		wellFormed = right
	default: // truncated stream
		cut := vsym.Choice("cut", 4)
		// cut inside the first header, inside the first payload, before the final chunk, inside the final header
		pos := []int{5, 84 + len(chunks[0]) - 1, len(stream) - 86, len(stream) - 3}[cut]
		stream = stream[:pos]
		wellFormed = false
	}
	declared := len(payload) - 1 + vsym.Choice("declared", 3)
	if declared < 0 {
		vsym.Assume(false) // negative declared lengths belong to C09's grammar
	}
	hdr := http.Header{
		"X-Amz-Content-Sha256":         {"STREAMING-AWS4-HMAC-SHA256-PAYLOAD"},
		"X-Amz-Decoded-Content-Length": {itoa(declared)},
		"Content-Length":               {itoa(len(stream))},
		"X-Amz-Meta-A":                 {"new"},
	}
	rd := &failingBody{data: stream, frag: 1 + vsym.Choice("frag", 3), failAt: -1}
	good := wellFormed && declared == len(payload)
	if vsym.Choice("aspart", 2) == 1 {
		// the same stream as a part of a multipart upload: the part is the payload
		id := initiate(h, "k", http.Header{})
		vsym.Assert(uploadPart(h, "k", id, 1, []byte("p1")).Code() == 200, "C12c/first-part")
		before := snapC08(h, "k", id)
		r := Do(h, Req{Method: "PUT", Path: "/bkt/k", Query: url.Values{"uploadId": {id}, "partNumber": {"2"}}, Header: hdr, Body: rd, Length: int64(len(stream))})
		if declared <= 0 {
			good = false // a part needs a positive length
		}
		if r.Code() == 200 {
			vsym.Reach("C12c/part-accepted")
			vsym.Assert(good, "C12c/bad-stream-accepted-as-part")
			vsym.Assert(r.Hdr.Get("ETag") == partETag(payload), "C12c/part-etag-of-payload")
			rq := BodyReq("POST", "/bkt/k", nil, CompleteBody([]gofakes3.CompletedPart{{PartNumber: 1, ETag: partETag([]byte("p1"))}, {PartNumber: 2, ETag: partETag(payload)}}))
			rq.Query = url.Values{"uploadId": {id}}
			vsym.Assert(Do(h, rq).Code() == 200, "C12c/complete")
			g := Do(h, Req{Method: "GET", Path: "/bkt/k"})
			vsym.Assert(g.Code() == 200 && string(g.Body) == "p1"+string(payload), "C12c/stored-part-payload")
			return
		}
		vsym.Reach("C12c/part-rejected")
		vsym.Assert(!good, "C12c/good-stream-rejected-as-part")
		vsym.Assert(r.Code() >= 400, "C12c/reject-status")
		sameSnapC08("C12c/part", before, snapC08(h, "k", id))
		return
	}
	before := snapC08(h, "k", "")
	r := Do(h, Req{Method: "PUT", Path: "/bkt/k", Header: hdr, Body: rd, Length: int64(len(stream))})
	if r.Code() == 200 {
		vsym.Reach("C12c/accepted")
		vsym.Assert(good, "C12c/bad-stream-accepted")
		g := Do(h, Req{Method: "GET", Path: "/bkt/k"})
		vsym.Assert(g.Code() == 200 && string(g.Body) == string(payload), "C12c/stored-payload")
		return
	}
	vsym.Reach("C12c/rejected")
	vsym.Assert(!good, "C12c/good-stream-rejected")
	vsym.Assert(r.Code() >= 400, "C12c/reject-status")
	sameSnapC08("C12c", before, snapC08(h, "k", ""))
}
