package vharn

import (
	"net/http"

	"github.com/johannesboyne/gofakes3"
	"github.com/johannesboyne/gofakes3/backend/s3afero"
	"github.com/johannesboyne/gofakes3/backend/s3mem"
	"github.com/johannesboyne/gofakes3/internal/vsym"
	"github.com/spf13/afero"
)

const (
	kindMem = iota
	kindBolt
	kindFsMulti
	kindFsSingle
)

// backendKind is the backend tier selected by the harness parameter "backend".
func backendKind() int { return vsym.Param("backend", kindMem) }

func newBackend(kind int) gofakes3.Backend {
	switch kind {
	case kindBolt:
		return newBoltBackend()
	case kindFsMulti:
		b, err := s3afero.MultiBucket(afero.NewMemMapFs())
		if err != nil {
			panic(err)
		}
		return b
	case kindFsSingle:
		b, err := s3afero.SingleBucket("bkt", afero.NewMemMapFs(), nil)
		if err != nil {
			panic(err)
		}
		return b
	}
	return s3mem.New()
}

func newServerKind(kind int, opts ...gofakes3.Option) (http.Handler, gofakes3.Backend) {
	b := newBackend(kind)
	opts = append([]gofakes3.Option{gofakes3.WithTimeSkewLimit(0)}, opts...)
	return gofakes3.New(b, opts...).Server(), b
}

// mkBucket creates bucket "bkt" unless the backend is the single-bucket one
// (which serves exactly that bucket).
func mkBucket(h http.Handler, kind int, tag string) {
	if kind == kindFsSingle {
		return
	}
	vsym.Assert(Do(h, Req{Method: "PUT", Path: "/bkt"}).Code() == 200, tag+"/create-bucket")
}
