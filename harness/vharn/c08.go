package vharn

import (
	"encoding/base64"
	"errors"
	"io"
	"net/http"
	"net/url"

	"github.com/johannesboyne/gofakes3"
	"github.com/johannesboyne/gofakes3/internal/vsym"
)

var errBodyRead = errors.New("body read failure (injected)")

// failingBody delivers data in fragments of at most frag bytes and fails with
// errBodyRead once failAt bytes have been delivered (failAt < 0: never).
type failingBody struct {
	data    []byte
	pos     int
	frag    int
	failAt  int
	eofWith bool // the final bytes arrive together with io.EOF (as net/http's body does)
}

func (f *failingBody) Read(p []byte) (int, error) {
	if f.failAt >= 0 && f.pos >= f.failAt {
		return 0, errBodyRead
	}
	if f.pos >= len(f.data) {
		return 0, io.EOF
	}
	if len(p) == 0 {
		return 0, nil
	}
	n := len(f.data) - f.pos
	if n > len(p) {
		n = len(p)
	}
	if f.frag > 0 && n > f.frag {
		n = f.frag
	}
	if f.failAt >= 0 && f.pos+n > f.failAt {
		n = f.failAt - f.pos
	}
	copy(p, f.data[f.pos:f.pos+n])
	f.pos += n
	if f.eofWith && f.pos >= len(f.data) && (f.failAt < 0 || f.failAt > len(f.data)) {
		return n, io.EOF
	}
	return n, nil
}

type snapshotC08 struct {
	getCode, headCode int
	body              string
	etag, ctype, meta string
	keys              []string
	etags             []string
	parts             PartsView
}

func snapC08(h http.Handler, key, uploadID string) snapshotC08 {
	var s snapshotC08
	g := Do(h, Req{Method: "GET", Path: "/bkt/" + key})
	s.getCode, s.body = g.Code(), string(g.Body)
	s.etag, s.ctype, s.meta = g.Hdr.Get("ETag"), g.Hdr.Get("Content-Type"), g.Hdr.Get("X-Amz-Meta-A")
	s.headCode = Do(h, Req{Method: "HEAD", Path: "/bkt/" + key}).Code()
	l := Do(h, Req{Method: "GET", Path: "/bkt"}).List()
	s.keys, s.etags = l.Keys, l.ETags
	if uploadID != "" {
		s.parts = listParts(h, key, uploadID, nil).Parts()
	}
	return s
}

func sameSnapC08(tag string, a, b snapshotC08) {
	vsym.Assert(a.getCode == b.getCode && a.headCode == b.headCode, tag+"/object-presence-unchanged")
	vsym.Assert(a.body == b.body, tag+"/object-bytes-unchanged")
	vsym.Assert(a.etag == b.etag && a.ctype == b.ctype && a.meta == b.meta, tag+"/object-metadata-unchanged")
	vsym.Assert(sameStrings(a.keys, b.keys) && sameStrings(a.etags, b.etags), tag+"/listing-unchanged")
	vsym.Assert(a.parts.OK == b.parts.OK && len(a.parts.Numbers) == len(b.parts.Numbers) && sameStrings(a.parts.ETags, b.parts.ETags), tag+"/pending-upload-unchanged")
}

// VH_C08_mem: object PUT and part upload with free body, declared length,
// Content-MD5 variants, reader failures; rejected uploads change nothing.
func VH_C08_mem() { c08Scenario(kindMem) }

// VH_C08: the same scenario on the backend tier selected by "backend".
func VH_C08() { c08Scenario(backendKind()) }

func c08Scenario(kind int) {
	integrity := vsym.Choice("integrity", 2) == 1
	h, _ := newServerKind(kind, gofakes3.WithIntegrityCheck(integrity))
	mkBucket(h, kind, "C08")
	key := "k"
	lite := vsym.Param("lite", 0) == 1 // fewer independent dimensions (quick tier on the non-memory backends)
	if lite || vsym.Choice("prior", 2) == 1 {
		vsym.Assert(Do(h, BodyReq("PUT", "/bkt/k", http.Header{"Content-Type": {"old/type"}, "X-Amz-Meta-A": {"old"}}, []byte("old"))).Code() == 200, "C08/prior")
	}
	target := vsym.Choice("target", 2) // 0 object PUT, 1 part upload
	uploadID := ""
	if target == 1 {
		uploadID = initiate(h, key, http.Header{})
		vsym.Assert(uploadPart(h, key, uploadID, 1, []byte("p1")).Code() == 200, "C08/first-part")
	}

	L := vsym.Choice("len", vsym.Param("maxbody", 2)+1)
	body := vsym.Bytes("body", L)
	declared := L - 1 + vsym.Choice("declared", 3)
	if declared < 0 {
		vsym.Assume(false)
	}
	// the same upload in the aws-chunked framing (one data chunk and the final
	// chunk): the declared length and the digest are those of the payload.
	// Truncated and damaged streams are C12's subject, so the reader does not
	// fail here.
	chunked := !lite && vsym.Choice("chunked", 2) == 1
	failAt := -1
	if !chunked && vsym.Choice("fails", 2) == 1 {
		failAt = vsym.Choice("failat", L+1)
	}
	frag := 1
	if !lite {
		frag = 1 + vsym.Choice("frag", 2)
	}
	data := body
	if chunked {
		if L > 0 {
			data = frameChunks([][]byte{body})
		} else {
			data = frameChunks(nil)
		}
	}
	rd := &failingBody{data: data, frag: frag, failAt: failAt, eofWith: vsym.Choice("eofwith", 2) == 1}

	hdr := http.Header{"Content-Type": {"new/type"}, "X-Amz-Meta-A": {"new"}}
	md5kind := vsym.Choice("md5", 5)
	digestOK := true
	sum := vsym.MD5(body)
	switch md5kind {
	case 0: // absent
	case 1: // present but empty
		hdr["Content-Md5"] = []string{""}
		digestOK = false
	case 2: // correct
		hdr.Set("Content-MD5", base64.StdEncoding.EncodeToString(sum[:]))
	case 3: // wrong: 16 free bytes different from the digest
		w := vsym.Bytes("wrongsum", 16)
		vsym.Assume(string(w) != string(sum[:]))
		hdr.Set("Content-MD5", base64.StdEncoding.EncodeToString(w))
		digestOK = false
	default: // malformed
		if vsym.Choice("malformed", 2) == 0 {
			hdr.Set("Content-MD5", "!!"+vsym.String("junk", 2))
		} else {
			hdr.Set("Content-MD5", base64.StdEncoding.EncodeToString([]byte("twenty-bytes-of-junk")))
		}
		digestOK = false
	}
	missingLength := !lite && !chunked && vsym.Choice("nolength", 2) == 1
	if !missingLength {
		hdr.Set("Content-Length", itoa(declared))
	}
	before := snapC08(h, key, uploadID)
	rq := Req{Method: "PUT", Path: "/bkt/" + key, Header: hdr, Body: rd, Length: int64(declared)}
	if chunked {
		hdr.Set("X-Amz-Content-Sha256", "STREAMING-AWS4-HMAC-SHA256-PAYLOAD")
		hdr.Set("X-Amz-Decoded-Content-Length", itoa(declared))
		hdr.Set("Content-Length", itoa(len(data)))
		rq.Length = int64(len(data))
	}
	if target == 1 {
		// a new part number, or a second upload of the part that is already there
		rq.Query = url.Values{"uploadId": {uploadID}, "partNumber": {itoa(1 + vsym.Choice("partnumber", 2))}}
	}
	r := Do(h, rq)

	lengthOK := declared == L && failAt < 0 && !missingLength
	if target == 1 && declared == 0 {
		lengthOK = false // a part must have a positive length
	}
	mustAccept := lengthOK && (digestOK || !integrity)
	mustReject := !lengthOK || (integrity && !digestOK)
	accepted := r.Code() == 200
	if accepted {
		vsym.Reach("C08/accepted")
		vsym.Assert(!mustReject, "C08/bad-upload-accepted")
		if target == 0 {
			g := Do(h, Req{Method: "GET", Path: "/bkt/" + key})
			vsym.Assert(g.Code() == 200 && string(g.Body) == string(body), "C08/accepted-object-bytes")
		}
		return
	}
	vsym.Reach("C08/rejected")
	vsym.Assert(!mustAccept, "C08/good-upload-rejected")
	vsym.Assert(r.Code() >= 400, "C08/reject-status")
	if integrity && lengthOK {
		code := r.ErrCode()
		switch md5kind {
		case 1, 4:
			vsym.Assert(code == "InvalidDigest", "C08/invalid-digest-code")
		case 3:
			vsym.Assert(code == "BadDigest", "C08/bad-digest-code")
		}
	}
	after := snapC08(h, key, uploadID)
	sameSnapC08("C08", before, after)
}

func repeatByte(c byte, n int) string {
	b := make([]byte, n)
	for i := range b {
		b[i] = c
	}
	return string(b)
}

// VH_C08b_mem: key length and metadata size at, just below and just above the limits.
func VH_C08b_mem() {
	const limit = 55 // "Last-Modified"(13)+value(29)+"X-Amz-Meta-A"(12) = 54, plus one byte of value
	h, _ := newMemServer(gofakes3.WithMetadataSizeLimit(limit))
	vsym.Assert(Do(h, Req{Method: "PUT", Path: "/bkt"}).Code() == 200, "C08b/create-bucket")
	kl := 1 + vsym.Choice("keylenclass", 4) // 1, or 1023..1025
	if kl > 1 {
		kl = 1021 + kl
	}
	key := repeatByte('x', kl-1) + vsym.String("kc", 1)
	vsym.Assume(key[kl-1] != '/')
	if vsym.Choice("prior", 2) == 1 && kl <= 1024 {
		vsym.Assert(Do(h, BodyReq("PUT", "/bkt/"+key, http.Header{"X-Amz-Meta-A": {"o"}}, []byte("old"))).Code() == 200, "C08b/prior")
	}
	ml := vsym.Choice("metalen", 3)
	hdr := http.Header{"X-Amz-Meta-A": {vsym.String("mv", ml)}}
	body := vsym.Bytes("body", 1)
	before := snapC08(h, key, "")
	r := Do(h, BodyReq("PUT", "/bkt/"+key, hdr, body))
	keyOK := kl <= 1024
	metaOK := 54+ml <= limit
	if r.Code() == 200 {
		vsym.Reach("C08b/accepted")
		vsym.Assert(keyOK && metaOK, "C08b/over-limit-upload-accepted")
		return
	}
	vsym.Reach("C08b/rejected")
	vsym.Assert(!(keyOK && metaOK), "C08b/within-limits-upload-rejected")
	vsym.Assert(r.Code() == 400, "C08b/reject-status")
	code := r.ErrCode()
	vsym.Assert(code == "KeyTooLongError" || code == "KeyTooLong" || code == "MetadataTooLarge", "C08b/reject-code")
	after := snapC08(h, key, "")
	sameSnapC08("C08b", before, after)
}
