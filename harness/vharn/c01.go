package vharn

import (
	"net/http"

	"github.com/johannesboyne/gofakes3"
	"github.com/johannesboyne/gofakes3/backend/s3mem"
	"github.com/johannesboyne/gofakes3/internal/vsym"
)

func newMemServer(opts ...gofakes3.Option) (http.Handler, *s3mem.Backend) {
	b := s3mem.New()
	opts = append([]gofakes3.Option{gofakes3.WithTimeSkewLimit(0)}, opts...)
	g := gofakes3.New(b, opts...)
	return g.Server(), b
}

func etagOf(body []byte) string {
	sum := vsym.MD5(body)
	return `"` + HexLower(sum[:]) + `"`
}

// checkEntity asserts GET and HEAD of path return the given entity.
func checkEntity(tag string, h http.Handler, path string, body []byte, hdrs map[string]string) {
	etag := etagOf(body)
	rg := Do(h, Req{Method: "GET", Path: path})
	vsym.Assert(rg.Code() == 200, tag+"/get-status")
	vsym.Assert(string(rg.Body) == string(body), tag+"/get-body")
	vsym.Assert(rg.Hdr.Get("Content-Length") == itoa(len(body)), tag+"/get-length")
	vsym.Assert(rg.Hdr.Get("ETag") == etag, tag+"/get-etag")
	rh := Do(h, Req{Method: "HEAD", Path: path})
	vsym.Assert(rh.Code() == 200, tag+"/head-status")
	vsym.Assert(len(rh.Body) == 0, tag+"/head-empty-body")
	vsym.Assert(rh.Hdr.Get("Content-Length") == itoa(len(body)), tag+"/head-length")
	vsym.Assert(rh.Hdr.Get("ETag") == etag, tag+"/head-etag")
	// HEAD describes the same version GET serves
	vsym.Assert(rh.Hdr.Get("x-amz-version-id") == rg.Hdr.Get("x-amz-version-id"), tag+"/head-version-id")
	for k, v := range hdrs {
		vsym.Assert(rg.Hdr.Get(k) == v, tag+"/get-header-"+k)
		vsym.Assert(rh.Hdr.Get(k) == v, tag+"/head-header-"+k)
	}
}

// c01Scenario: upload by PUT / copy / browser-form POST, then read back.
func c01Scenario(h http.Handler, kind int, integrity bool) {
	mkBucket(h, kind, "C01")

	n := vsym.Choice("len", vsym.Param("maxbody", 3)+1)
	body := vsym.Bytes("body", n)
	key := "k" + vsym.String("key", 1)
	vsym.Assume(key[1] != '/')
	if kind == kindFsMulti || kind == kindFsSingle {
		vsym.Assume(vsym.And(key[1] != '\\', key[1] != 0)) // key domain of the fs backends
	}

	// metadata: presence flags and values are free
	meta := map[string]string{}
	hdr := http.Header{}
	names := []string{"Content-Type", "Content-Encoding", "Content-Disposition", "X-Amz-Meta-A"}
	if vsym.Param("fullmeta", 0) == 1 {
		// every subset of the metadata headers
		for i, name := range names {
			switch vsym.Choice("has-"+name, 2+i/3) { // the user metadata header may also be sent empty
			case 1:
				v := vsym.String("v-"+name, 1)
				meta[name] = v
				hdr.Set(name, v)
			case 2:
				meta[name] = ""
				hdr.Set(name, "")
			}
		}
	} else {
		// none, all, or only the user metadata header
		which := vsym.Choice("metaset", 3)
		for i, name := range names {
			if which == 1 || (which == 2 && i == 3) {
				v := vsym.String("v-"+name, 1)
				meta[name] = v
				hdr.Set(name, v)
			}
		}
	}
	if vsym.Choice("prior", 2) == 1 { // an older object at the key, with other metadata
		vsym.Assert(Do(h, BodyReq("PUT", "/bkt/"+key, http.Header{"X-Amz-Meta-Old": {"o"}, "X-Amz-Meta-A": {"prior-a"}}, []byte("previous"))).Code() == 200, "C01/prior-put")
	}
	switch vsym.Choice("path", 4) {
	case 3: // PUT with the aws-chunked (SigV4 streaming) framing: the payload is what is stored
		var chunks [][]byte
		if len(body) > 0 {
			cut := len(body) / 2 // two chunks when there are at least two bytes
			if cut > 0 {
				chunks = append(chunks, body[:cut])
			}
			chunks = append(chunks, body[cut:])
		}
		stream := frameChunks(chunks)
		sh := hdr.Clone()
		sh.Set("X-Amz-Content-Sha256", "STREAMING-AWS4-HMAC-SHA256-PAYLOAD")
		sh.Set("X-Amz-Decoded-Content-Length", itoa(len(body)))
		sh.Del("Content-Md5") // a digest of the payload is not the digest of the framed stream
		rp := Do(h, BodyReq("PUT", "/bkt/"+key, sh, stream))
		vsym.Assert(rp.Code() == 200, "C01/streaming-put-status")
		vsym.Assert(rp.Hdr.Get("ETag") == etagOf(body), "C01/streaming-put-etag")
		checkEntity("C01/streaming-put", h, "/bkt/"+key, body, meta)
		vsym.Reach("C01/streaming-put")
	case 0: // PUT
		rp := Do(h, BodyReq("PUT", "/bkt/"+key, hdr, body))
		vsym.Assert(rp.Code() == 200, "C01/put-status")
		vsym.Assert(rp.Hdr.Get("ETag") == etagOf(body), "C01/put-etag")
		checkEntity("C01/put", h, "/bkt/"+key, body, meta)
		// a nested key and a sibling whose name differs only by '/' vs '_'
		// keep their own metadata
		nested := http.Header{"Content-Type": {"n/1"}, "X-Amz-Meta-A": {"nested"}}
		vsym.Assert(Do(h, BodyReq("PUT", "/bkt/n/e", nested, body)).Code() == 200, "C01/nested-put")
		vsym.Assert(Do(h, BodyReq("PUT", "/bkt/n_e", http.Header{"Content-Type": {"s/2"}, "X-Amz-Meta-A": {"sibling"}}, []byte("s"))).Code() == 200, "C01/sibling-put")
		checkEntity("C01/nested", h, "/bkt/n/e", body, map[string]string{"Content-Type": "n/1", "X-Amz-Meta-A": "nested"})
		vsym.Reach("C01/put")
	case 1: // copy from another key; the copy request overrides one header
		srcHdr := http.Header{"Content-Type": {"src/type"}, "X-Amz-Meta-A": {"src-a"}, "Content-Encoding": {"src-enc"}}
		vsym.Assert(Do(h, BodyReq("PUT", "/bkt/src", srcHdr, body)).Code() == 200, "C01/copy-source-put")
		ch := hdr.Clone()
		ch.Set("X-Amz-Copy-Source", "/bkt/src")
		r := Do(h, Req{Method: "PUT", Path: "/bkt/" + key, Header: ch})
		vsym.Assert(r.Code() == 200, "C01/copy-status")
		checkEntity("C01/copy-dest", h, "/bkt/"+key, body, meta)
		// the source is unchanged
		checkEntity("C01/copy-source", h, "/bkt/src", body, map[string]string{"Content-Type": "src/type", "X-Amz-Meta-A": "src-a", "Content-Encoding": "src-enc"})
		vsym.Reach("C01/copy")
	default: // browser-form POST
		fields := map[string]string{"key": key}
		for k, v := range meta {
			fields[k] = v
		}
		r := Do(h, FormReq("/bkt", fields, body))
		vsym.Assert(r.Code() == 200, "C01/form-status")
		vsym.Assert(r.Hdr.Get("ETag") == etagOf(body), "C01/form-etag")
		checkEntity("C01/form", h, "/bkt/"+key, body, nil)
		vsym.Reach("C01/form")
	}
}

// VH_C01_mem: memory backend through the HTTP surface, integrity check on/off.
func VH_C01_mem() {
	integrity := vsym.Choice("integrity", 2) == 1
	h, _ := newMemServer(gofakes3.WithIntegrityCheck(integrity))
	c01Scenario(h, kindMem, integrity)
}

// VH_C01: same scenario on the backend tier selected by parameter "backend"
// (1 bolt on the bbolt model, 2 multi-bucket fs, 3 single-bucket fs on MemMapFs).
func VH_C01() {
	integrity := vsym.Choice("integrity", 2) == 1
	kind := backendKind()
	h, _ := newServerKind(kind, gofakes3.WithIntegrityCheck(integrity))
	c01Scenario(h, kind, integrity)
}
