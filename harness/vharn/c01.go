package vharn

import (
	"net/http"

	"github.com/johannesboyne/gofakes3"
	"github.com/johannesboyne/gofakes3/backend/s3mem"
	"github.com/johannesboyne/gofakes3/internal/vsym"
)

func newMemServer(opts ...gofakes3.Option) (http.Handler, *s3mem.Backend) {
	b := s3mem.New()
	opts = append([]gofakes3.Option{gofakes3.WithTimeSkewLimit(0)}, opts...)
	g := gofakes3.New(b, opts...)
	return g.Server(), b
}

// VH_C01_mem: PUT then GET/HEAD on the memory backend through the HTTP surface.
func VH_C01_mem() {
	h, _ := newMemServer()
	rc := Do(h, Req{Method: "PUT", Path: "/bkt"})
	vsym.Assert(rc.Code() == 200, "C01/create-bucket")

	maxLen := vsym.Param("maxbody", 3)
	n := vsym.Choice("len", maxLen+1)
	body := vsym.Bytes("body", n)
	key := "k" + vsym.String("key", 1)
	vsym.Assume(key[1] != '/')

	hdr := http.Header{}
	ct := vsym.String("ct", 1)
	hdr.Set("Content-Type", ct)
	meta := vsym.String("meta", 1)
	hdr.Set("X-Amz-Meta-A", meta)
	rp := Do(h, BodyReq("PUT", "/bkt/"+key, hdr, body))
	vsym.Assert(rp.Code() == 200, "C01/put-status")
	sum := vsym.MD5(body)
	etag := `"` + HexLower(sum[:]) + `"`
	vsym.Assert(rp.Hdr.Get("ETag") == etag, "C01/put-etag")

	rg := Do(h, Req{Method: "GET", Path: "/bkt/" + key})
	vsym.Assert(rg.Code() == 200, "C01/get-status")
	vsym.Assert(string(rg.Body) == string(body), "C01/get-body")
	vsym.Assert(rg.Hdr.Get("Content-Length") == itoa(n), "C01/get-length")
	vsym.Assert(rg.Hdr.Get("ETag") == etag, "C01/get-etag")
	vsym.Assert(rg.Hdr.Get("Content-Type") == ct, "C01/get-content-type")
	vsym.Assert(rg.Hdr.Get("X-Amz-Meta-A") == meta, "C01/get-meta")

	rh := Do(h, Req{Method: "HEAD", Path: "/bkt/" + key})
	vsym.Assert(rh.Code() == 200, "C01/head-status")
	vsym.Assert(len(rh.Body) == 0, "C01/head-empty-body")
	vsym.Assert(rh.Hdr.Get("Content-Length") == itoa(n), "C01/head-length")
	vsym.Assert(rh.Hdr.Get("ETag") == etag, "C01/head-etag")
	vsym.Assert(rh.Hdr.Get("Content-Type") == ct, "C01/head-content-type")
	vsym.Reach("C01/done")
}
