package vharn

import (
	"net/http"

	"github.com/johannesboyne/gofakes3/internal/vsym"
)

// VH_C11c_mem: ranged GET end to end on the memory backend. The header is
// built from free decimal digits so that starts/ends below, at and beyond the
// object size are all inside the bound.
func VH_C11c_mem() { c11cScenario(kindMem) }

// VH_C11c: the same on the backend tier selected by "backend".
func VH_C11c() { c11cScenario(backendKind()) }

func c11cScenario(kind int) {
	h, _ := newServerKind(kind)
	mkBucket(h, kind, "C11c")
	n := vsym.Choice("len", vsym.Param("maxbody", 3)+1)
	body := vsym.Bytes("body", n)
	vsym.Assert(Do(h, BodyReq("PUT", "/bkt/k", nil, body)).Code() == 200, "C11c/put")

	form := vsym.Choice("form", 3)
	a := int(vsym.Byte("a"))
	b := int(vsym.Byte("b"))
	vsym.Assume(a <= 9)
	vsym.Assume(b <= 9)
	da := string([]byte{byte('0' + a)})
	db := string([]byte{byte('0' + b)})
	var hdr string
	var wantInvalid bool
	var first, last int // inclusive window when valid
	switch form {
	case 0: // first-last
		vsym.Assume(a <= b)
		hdr = "bytes=" + da + "-" + db
		wantInvalid = a >= n
		first, last = a, b
		if last > n-1 {
			last = n - 1
		}
	case 1: // first-
		hdr = "bytes=" + da + "-"
		wantInvalid = a >= n
		first, last = a, n-1
	default: // -suffix
		hdr = "bytes=-" + db
		wantInvalid = b == 0 || b > n
		first, last = n-b, n-1
	}
	r := Do(h, Req{Method: "GET", Path: "/bkt/k", Header: http.Header{"Range": {hdr}}})
	if wantInvalid {
		vsym.Reach("C11c/invalid")
		vsym.Assert(r.Code() == 416, "C11c/invalid-range-status")
		vsym.Assert(r.ErrCode() == "InvalidRange", "C11c/invalid-range-code")
		return
	}
	vsym.Reach("C11c/ok")
	vsym.Assert(r.Code() == 200 || r.Code() == 206, "C11c/status")
	want := body[first : last+1]
	vsym.Observe("rbody", r.Body)
	vsym.Observe("want", want)
	vsym.Observe("hdr", hdr)
	vsym.Assert(string(r.Body) == string(want), "C11c/bytes")
	vsym.Assert(r.Hdr.Get("Content-Length") == itoa(last-first+1), "C11c/content-length")
	vsym.Assert(r.Hdr.Get("Content-Range") == "bytes "+itoa(first)+"-"+itoa(last)+"/"+itoa(n), "C11c/content-range")
}
