// Package vharn holds the HTTP-surface harnesses: they enter gofakes3 through
// the public Server().ServeHTTP with harness-built requests and a response
// recorder, so the whole middleware chain, router, handlers and backend are
// real code.
package vharn

import (
	"bytes"
	"io"
	"mime/multipart"
	"net/http"
	"net/url"

	"github.com/johannesboyne/gofakes3/internal/vsym"
)

// Recorder is the http.ResponseWriter handed to ServeHTTP.
type Recorder struct {
	Hdr    http.Header
	Status int // 0: nothing written explicitly (implicit 200)
	Body   []byte
	XML    []interface{} // typed values given to the XML encoder (symbolic flavour only)
	Writes int
}

func NewRecorder() *Recorder { return &Recorder{Hdr: http.Header{}} }

func (r *Recorder) Header() http.Header { return r.Hdr }
func (r *Recorder) Write(b []byte) (int, error) {
	if r.Status == 0 {
		r.Status = 200
	}
	r.Writes++
	r.Body = append(r.Body, b...)
	return len(b), nil
}
func (r *Recorder) WriteHeader(code int) {
	if r.Status == 0 {
		r.Status = code
	}
}
func (r *Recorder) RecordXML(v interface{}) { r.XML = append(r.XML, v) }

// Code is the effective status.
func (r *Recorder) Code() int {
	if r.Status == 0 {
		return 200
	}
	return r.Status
}

// Req describes a request to build.
type Req struct {
	Method string
	Path   string
	Query  url.Values
	Header http.Header
	Host   string
	Body   io.Reader
	Length int64 // ContentLength field
	Form   *multipart.Form
}

func (q Req) Build() *http.Request {
	u := &url.URL{Path: q.Path}
	setQuery(u, q.Query)
	h := q.Header
	if h == nil {
		h = http.Header{}
	}
	host := q.Host
	if host == "" {
		host = "s3.example.test"
	}
	var body io.ReadCloser = http.NoBody
	if q.Body != nil {
		body = io.NopCloser(q.Body)
	}
	return &http.Request{Method: q.Method, URL: u, Header: h, Host: host, Body: body, ContentLength: q.Length,
		Proto: "HTTP/1.1", ProtoMajor: 1, ProtoMinor: 1, MultipartForm: q.Form}
}

// SlowRecorder is a client that downloads slowly: like net/http's response
// writer it implements io.ReaderFrom, so io.Copy hands it the source and the
// bytes are pulled from the object's reader only as the client takes them.
// Started is raised when the body transfer begins; the first bytes are taken
// only after Gate was raised (natively a short wait, symbolically one
// scheduling point).
type SlowRecorder struct {
	*Recorder
	Started, Gate *int32
}

func (s *SlowRecorder) ReadFrom(src io.Reader) (int64, error) {
	if s.Started != nil {
		vsym.SetFlag(s.Started)
	}
	if s.Gate != nil {
		vsym.YieldUntil(s.Gate)
	} else {
		vsym.Yield()
	}
	var total int64
	buf := make([]byte, 4)
	for {
		n, err := src.Read(buf)
		if n > 0 {
			s.Recorder.Write(buf[:n])
			total += int64(n)
		}
		if err == io.EOF {
			return total, nil
		}
		if err != nil {
			return total, err
		}
	}
}

// DoSlow is Do with a slowly downloading client.
func DoSlow(h http.Handler, q Req, started, gate *int32) *Recorder {
	rec := NewRecorder()
	h.ServeHTTP(&SlowRecorder{Recorder: rec, Started: started, Gate: gate}, q.Build())
	return rec
}

// Do sends a request through handler h and returns the recorder.
func Do(h http.Handler, q Req) *Recorder {
	rec := NewRecorder()
	h.ServeHTTP(rec, q.Build())
	// cross-validation: what the client saw is compared between the symbolic
	// executor's prediction and the native run of the same inputs
	vsym.Observe("status", rec.Code())
	vsym.Observe("error-code", rec.ErrCode())
	if rec.Hdr.Get("Content-Type") != "application/xml" {
		vsym.Observe("body", rec.Body)
	}
	vsym.Observe("content-length", rec.Hdr.Get("Content-Length"))
	return rec
}

func BodyReq(method, path string, hdr http.Header, body []byte) Req {
	if hdr == nil {
		hdr = http.Header{}
	}
	hdr.Set("Content-Length", itoa(len(body)))
	return Req{Method: method, Path: path, Header: hdr, Body: bytes.NewReader(body), Length: int64(len(body))}
}

func itoa(n int) string {
	if n == 0 {
		return "0"
	}
	neg := n < 0
	if neg {
		n = -n
	}
	var b [24]byte
	i := len(b)
	for n > 0 {
		i--
		b[i] = byte('0' + n%10)
		n /= 10
	}
	if neg {
		i--
		b[i] = '-'
	}
	return string(b[i:])
}

const hexdigits = "0123456789abcdef"

// HexLower renders bytes as lower-case hex without table lookups on symbolic
// indices (independent of encoding/hex).
func HexLower(b []byte) string {
	out := make([]byte, 0, 2*len(b))
	for _, c := range b {
		out = append(out, hexNibble(c>>4), hexNibble(c&15))
	}
	return string(out)
}

func hexNibble(n byte) byte { return hexdigits[n&15] }

func newBytesReader(b []byte) io.Reader { return bytes.NewReader(b) }
