package vharn

import (
	"net/http"
	"net/url"

	"github.com/johannesboyne/gofakes3"
	"github.com/johannesboyne/gofakes3/internal/vsym"
)

// richState: versioned bucket "bkt" with key "k" (two versions), key "d"
// (delete-marked), a plain key "p/q", and a pending upload on "u" with parts 2 and 5.
// On servers without versioning (other backends, WithoutVersioning) the same
// requests are made and the bucket simply holds k, p/q and the uploads.
func richState(h http.Handler, kind int, versioned bool) (uploadID string, oldVersion string) {
	if kind != kindFsSingle {
		vsym.Assert(Do(h, Req{Method: "PUT", Path: "/bkt"}).Code() == 200, "C09/setup")
	}
	if versioned {
		vsym.Assert(setVersioning(h, "Enabled").Code() == 200, "C09/setup")
	}
	r1 := Do(h, BodyReq("PUT", "/bkt/k", nil, []byte("v1")))
	oldVersion = r1.Hdr.Get("x-amz-version-id")
	if oldVersion == "" {
		oldVersion = "0"
	}
	Do(h, BodyReq("PUT", "/bkt/k", nil, []byte("v2")))
	Do(h, BodyReq("PUT", "/bkt/d", nil, []byte("dd")))
	Do(h, Req{Method: "DELETE", Path: "/bkt/d"})
	Do(h, BodyReq("PUT", "/bkt/p/q", nil, []byte("pq")))
	if versioned {
		// a key written twice whose versions were then all deleted by id
		e1 := Do(h, BodyReq("PUT", "/bkt/e", nil, []byte("e1"))).Hdr.Get("x-amz-version-id")
		e2 := Do(h, BodyReq("PUT", "/bkt/e", nil, []byte("e2"))).Hdr.Get("x-amz-version-id")
		Do(h, Req{Method: "DELETE", Path: "/bkt/e", Query: url.Values{"versionId": {e2}}})
		Do(h, Req{Method: "DELETE", Path: "/bkt/e", Query: url.Values{"versionId": {e1}}})
	}
	uploadID = initiate(h, "u", http.Header{})
	uploadPart(h, "u", uploadID, 2, []byte("p2"))
	uploadPart(h, "u", uploadID, 5, []byte("p5"))
	// a key whose only upload was aborted, and one whose upload was completed
	gone := initiate(h, "v", http.Header{})
	Do(h, Req{Method: "DELETE", Path: "/bkt/v", Query: url.Values{"uploadId": {gone}}})
	return
}

// asciiStr is a free string of n bytes below 0x80 (UTF-8 decoding of header
// and parameter values is the standard library's, not the subject here).
func asciiStr(name string, n int) string {
	s := vsym.String(name, n)
	for i := 0; i < n; i++ {
		vsym.Assume(s[i] < 0x80)
	}
	return s
}

func numericValue() string {
	switch vsym.Choice("numkind", 8) {
	case 0:
		return ""
	case 1:
		return "0"
	case 2:
		return "-1"
	case 3:
		return "9223372036854775807"
	case 4:
		return "9223372036854775808"
	case 5:
		return "10001"
	case 6:
		d := asciiStr("digit", 1)
		vsym.Assume(d[0] >= '0' && d[0] <= '9')
		return d
	default:
		return asciiStr("numjunk", 2)
	}
}

func freeValue(name string) string {
	switch vsym.Choice("valkind", 3) {
	case 0:
		return ""
	case 1:
		return asciiStr(name, 1)
	default:
		return asciiStr(name, 2)
	}
}

// checkWellFormed: the response obligations of C09.
func checkWellFormed(tag string, r *Recorder, method string) {
	code := r.Code()
	vsym.Assert(code >= 200 && code <= 599, tag+"/status-range")
	if ec := r.ErrCode(); ec != "" {
		vsym.Assert(gofakes3.ErrorCode(ec).Status() == code, tag+"/error-code-matches-status")
	} else if code >= 400 && method != "HEAD" && len(r.Body) > 0 {
		vsym.Fail(tag + "/error-body-is-not-an-s3-error-document")
	}
}

// canary: the server still answers correct requests on this and on a fresh bucket.
func canary(h http.Handler) {
	b := []byte("canary")
	vsym.Assert(Do(h, BodyReq("PUT", "/bkt/canary", nil, b)).Code() == 200, "C09/canary-put")
	g := Do(h, Req{Method: "GET", Path: "/bkt/canary"})
	vsym.Assert(g.Code() == 200 && string(g.Body) == "canary", "C09/canary-get")
	// (the single-bucket backend cannot create buckets; under host-bucket routing every path names a key of bkt)
	if vsym.Param("fullcanary", 0) == 1 && backendKind() != kindFsSingle && vsym.Param("opts", 0) != 1 {
		vsym.Assert(Do(h, Req{Method: "PUT", Path: "/fresh-bucket"}).Code() == 200, "C09/canary-new-bucket")
		vsym.Assert(Do(h, BodyReq("PUT", "/fresh-bucket/x", nil, b)).Code() == 200, "C09/canary-new-put")
		g2 := Do(h, Req{Method: "GET", Path: "/fresh-bucket/x"})
		vsym.Assert(g2.Code() == 200 && string(g2.Body) == "canary", "C09/canary-new-get")
	}
	l := Do(h, Req{Method: "GET", Path: "/bkt"})
	vsym.Assert(l.Code() == 200, "C09/canary-list")
	// the multipart machinery still answers too
	id := initiate(h, "canary-mpu", http.Header{})
	vsym.Assert(Do(h, Req{Method: "DELETE", Path: "/bkt/canary-mpu", Query: url.Values{"uploadId": {id}}}).Code() == 204, "C09/canary-multipart")
}

// VH_C09: one request from the grammar of the routed surface against a rich state.
func VH_C09() {
	kind := backendKind()
	var opts []gofakes3.Option
	versioned := kind == kindMem
	hostBucket := false
	switch vsym.Param("opts", 0) {
	case 1:
		opts = append(opts, gofakes3.WithHostBucket(true))
		hostBucket = true
	case 2:
		opts = append(opts, gofakes3.WithAutoBucket(true))
	case 3:
		opts = append(opts, gofakes3.WithoutVersioning())
		versioned = false
	case 4:
		opts = append(opts, gofakes3.WithUnimplementedPageError())
	}
	h, _ := newServerKind(kind, opts...)
	if hostBucket {
		// the state is built (and the canary runs) through the same host-style routing
		h = hostStyle(h, "bkt.s3.example")
	}
	uploadID, oldVer := richState(h, kind, versioned)

	methods := []string{"GET", "PUT", "POST", "DELETE", "HEAD", "OPTIONS", "PATCH"}
	method := methods[vsym.Choice("method", len(methods))]
	paths := []string{"/", "/bkt", "/bkt/k", "/bkt/u", "/nob/k", "//bkt//p/q/"}
	path := paths[vsym.Choice("path", vsym.Param("paths", len(paths)))]
	q := url.Values{}
	hdr := http.Header{}
	var body []byte

	// either the query string or the headers/body are varied, not both
	varyQuery := vsym.Choice("vary", 2) == 0
	sub := func(name string, n int) int {
		if !varyQuery {
			return 0
		}
		return vsym.Choice(name, n)
	}
	switch vsym.Choice("primary", 10) {
	case 0: // no sub-resource
	case 1: // uploadId
		if vsym.Choice("validid", 2) == 1 {
			q.Set("uploadId", uploadID)
		} else {
			q.Set("uploadId", asciiStr("uid", 1))
		}
		switch sub("mpuextra", 4) {
		case 1:
			q.Set("partNumber", numericValue())
		case 2:
			q.Set("part-number-marker", numericValue())
		case 3:
			q.Set("max-parts", numericValue())
		}
	case 2: // uploads
		q.Set("uploads", "")
		switch sub("upextra", 5) {
		case 1:
			q.Set("max-uploads", numericValue())
		case 2:
			q.Set("key-marker", freeValue("km"))
		case 3:
			q.Set("key-marker", "u")
			q.Set("upload-id-marker", freeValue("uim"))
		case 4:
			q.Set("prefix", freeValue("pfx"))
			q.Set("delimiter", freeValue("dlm"))
		}
	case 3:
		q.Set("versioning", "")
	case 4: // versions
		q.Set("versions", "")
		switch sub("verextra", 5) {
		case 1:
			q.Set("max-keys", numericValue())
		case 2:
			q.Set("key-marker", freeValue("km"))
		case 3:
			// a key with several versions, one with a single version, one under a
			// delete marker, and a key that does not exist
			q.Set("key-marker", []string{"k", "p/q", "d", "zz"}[vsym.Choice("vkm", 4)])
			switch vsym.Choice("vimkind", 3) {
			case 0:
				q.Set("version-id-marker", freeValue("vim"))
			case 1:
				q.Set("version-id-marker", oldVer)
			default:
				q.Set("version-id-marker", "null")
			}
		case 4:
			q.Set("version-id-marker", freeValue("vim"))
		}
	case 5: // versionId
		switch vsym.Choice("vidkind", 3) {
		case 0:
			q.Set("versionId", oldVer)
		case 1:
			q.Set("versionId", "null")
		default:
			q.Set("versionId", asciiStr("vid", 2))
		}
	case 6:
		q.Set("delete", "")
	case 7:
		q.Set("location", "")
	case 8: // listing parameters
		switch sub("listextra", 7) {
		case 0:
			q.Set("max-keys", numericValue())
		case 1:
			q.Set("list-type", "2")
			q.Set("continuation-token", freeValue("tok"))
		case 2:
			q.Set("list-type", "2")
			q.Set("start-after", freeValue("sa"))
		case 3:
			q.Set("marker", freeValue("mk"))
		case 4:
			q.Set("prefix", freeValue("pfx"))
			q.Set("delimiter", freeValue("dlm"))
		case 5:
			q.Set("list-type", freeValue("lt"))
			q.Set("fetch-owner", "")
		default:
			q.Set("delimiter", "/")
			q.Set("max-keys", "1")
		}
	default: // an unknown sub-resource
		q.Set("x-unknown", asciiStr("unknownval", 1))
	}

	extra := 0
	if !varyQuery {
		extra = 1 + vsym.Choice("extra", 10)
	}
	switch extra {
	case 0:
	case 1:
		hdr.Set("Range", "bytes="+asciiStr("rng", 3))
	case 2:
		hdr.Set("Range", []string{"bytes=1-9223372036854775807", "bytes=-9223372036854775808", "bytes=0-0,1-1", "items=0-1"}[vsym.Choice("rngt", 4)])
	case 3:
		hdr.Set("X-Amz-Copy-Source", asciiStr("cs", 3))
	case 4:
		hdr.Set("X-Amz-Copy-Source", []string{"/bkt/k", "bkt", "/", "/bkt/k?versionId=x", "/nob/k", "%zz/k"}[vsym.Choice("cst", 6)])
	case 5:
		// (a client can announce any length and then send less)
		hdr.Set("Content-Length", []string{"1", "-1", "x", "99999999999999999999", "9223372036854775807"}[vsym.Choice("clt", 5)])
		body = []byte("x")
	case 6:
		hdr.Set("Content-MD5", asciiStr("md5", 2))
		hdr.Set("Content-Length", "1")
		body = []byte("x")
	case 9: // SigV4 streaming upload: framing intact or cut short, declared decoded length free
		stream := frameChunks([][]byte{[]byte("ab")})
		switch vsym.Choice("cutstream", 4) {
		case 1:
			stream = stream[:5] // inside the chunk header
		case 2:
			stream = stream[:85] // inside the chunk data
		case 3:
			stream = stream[:len(stream)-3] // inside the final chunk's header
		}
		body = stream
		hdr.Set("Content-Length", itoa(len(stream)))
		hdr.Set("X-Amz-Content-Sha256", "STREAMING-AWS4-HMAC-SHA256-PAYLOAD")
		hdr.Set("X-Amz-Decoded-Content-Length", []string{"2", "0", "-1", "3", "x", "9223372036854775807"}[vsym.Choice("dcl", 6)])
	case 10: // Minio's forced bucket delete (and junk values of its header)
		hdr.Set("x-minio-force-delete", []string{"true", "false", "TRUE", ""}[vsym.Choice("force", 4)])
	case 7:
		hdr.Set("If-None-Match", asciiStr("inm", 2))
		hdr.Set("x-amz-date", "20060102T150405Z")
	default: // a body
		switch vsym.Choice("bodykind", 5) {
		case 0:
			body = MalformedXMLBody()
		case 1:
			body = CompleteBody([]gofakes3.CompletedPart{{PartNumber: vsym.Int("cpn"), ETag: asciiStr("cet", 2)}, {PartNumber: vsym.Int("cpn"), ETag: `"x"`}})
		case 2:
			body = DeleteBody([]gofakes3.ObjectID{{Key: asciiStr("dk", 1), VersionID: asciiStr("dv", 1)}, {Key: "k"}}, vsym.Bool("quiet"))
		case 3:
			body = VersioningBody(asciiStr("vs", 2))
		default:
			body = []byte("plain")
		}
		hdr.Set("Content-Length", itoa(len(body)))
	}
	if q.Get("uploadId") != "" && method == "PUT" && body == nil {
		// a part upload needs a body to get past the length check
		body = []byte("x")
		hdr.Set("Content-Length", "1")
	}
	rq := Req{Method: method, Path: path, Query: q, Header: hdr}
	if body != nil {
		rq.Body = newBytesReader(body)
		rq.Length = int64(len(body))
	}
	r := Do(h, rq)
	checkWellFormed("C09", r, method)
	if method == "DELETE" && r.Code() == 204 && Do(h, Req{Method: "HEAD", Path: "/bkt"}).Code() == 404 {
		// the request legitimately removed the bucket (a forced delete): it can be created again
		vsym.Assert(kind != kindFsSingle, "C09/single-bucket-deleted")
		vsym.Assert(Do(h, Req{Method: "PUT", Path: "/bkt"}).Code() == 200, "C09/recreate-after-delete")
	}
	if method == "DELETE" && r.Code() >= 400 {
		// a delete that was refused has not deleted anything
		g := Do(h, Req{Method: "GET", Path: "/bkt/p/q"})
		vsym.Assert(g.Code() == 200 && string(g.Body) == "pq", "C09/refused-delete-removed-objects")
	}
	canary(h)
	vsym.Reach("C09/done")
}

// hostStyle presents path-style requests for bucket "bkt" the virtual-host way
// (Host: bkt.<base>, path without the bucket); other paths are sent as they
// are and so address keys of that bucket.
func hostStyle(h http.Handler, host string) http.Handler {
	return http.HandlerFunc(func(w http.ResponseWriter, r *http.Request) {
		r.Host = host
		p := r.URL.Path
		if len(p) >= 4 && p[:4] == "/bkt" && (len(p) == 4 || p[4] == '/') {
			p = p[4:]
			if p == "" {
				p = "/"
			}
			r.URL.Path = p
		}
		h.ServeHTTP(w, r)
	})
}
