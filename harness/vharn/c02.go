package vharn

import (
	"net/http"
	"net/url"
	"sort"

	"github.com/johannesboyne/gofakes3"
	"github.com/johannesboyne/gofakes3/internal/vsym"
)

// model is the reference S3 model of C02: bucket -> key -> body.
type model struct {
	buckets map[string]map[string][]byte
	auto    bool
}

func (m *model) touch(b string) bool {
	if _, ok := m.buckets[b]; ok {
		return true
	}
	if m.auto {
		m.buckets[b] = map[string][]byte{}
		return true
	}
	return false
}

func sortedNames(m map[string]map[string][]byte) []string {
	var n []string
	for k := range m {
		n = append(n, k)
	}
	sort.Strings(n)
	return n
}

func sortedKeysOf(m map[string][]byte) []string {
	var n []string
	for k := range m {
		n = append(n, k)
	}
	sort.Strings(n)
	return n
}

func sameStrings(a, b []string) bool {
	if len(a) != len(b) {
		return false
	}
	for i := range a {
		if a[i] != b[i] {
			return false
		}
	}
	return true
}

var c02Buckets = []string{"aaa", "bbb"}

func c02Keys() []string { return []string{"k", "k/x"} }

// c02Single is set for the single-bucket backend: bucket creation/deletion
// are not implemented there and answer NotImplemented.
var c02Single bool

func expectErr(tag string, r *Recorder, status int, code string) {
	vsym.Assert(r.Code() == status, tag+"/status")
	vsym.Assert(r.ErrCode() == code, tag+"/code")
}

// c02Step performs one operation against server h and checks it against m.
func c02Step(h http.Handler, m *model, keys []string, i int) {
	op := vsym.Choice("op", 11)
	pickB := func() string { return c02Buckets[vsym.Choice("bucket", len(c02Buckets))] }
	pickK := func() string { return keys[vsym.Choice("key", len(keys))] }
	switch op {
	case 0: // create bucket
		b := pickB()
		r := Do(h, Req{Method: "PUT", Path: "/" + b})
		if c02Single {
			expectErr("C02/single-create-bucket", r, 501, "NotImplemented")
		} else if _, ok := m.buckets[b]; ok {
			expectErr("C02/create-existing", r, 409, "BucketAlreadyExists")
		} else {
			vsym.Assert(r.Code() == 200, "C02/create/status")
			m.buckets[b] = map[string][]byte{}
		}
	case 1: // head bucket
		b := pickB()
		r := Do(h, Req{Method: "HEAD", Path: "/" + b})
		if m.touch(b) {
			vsym.Assert(r.Code() == 200, "C02/head-bucket/status")
		} else {
			vsym.Assert(r.Code() == 404, "C02/head-bucket-absent/status")
		}
	case 2: // delete bucket
		b := pickB()
		r := Do(h, Req{Method: "DELETE", Path: "/" + b})
		if !m.touch(b) {
			expectErr("C02/delete-bucket-absent", r, 404, "NoSuchBucket")
		} else if c02Single {
			expectErr("C02/single-delete-bucket", r, 501, "NotImplemented")
		} else if len(m.buckets[b]) > 0 {
			expectErr("C02/delete-bucket-nonempty", r, 409, "BucketNotEmpty")
		} else {
			vsym.Assert(r.Code() == 204, "C02/delete-bucket/status")
			delete(m.buckets, b)
		}
	case 3: // list buckets
		r := Do(h, Req{Method: "GET", Path: "/"})
		vsym.Assert(r.Code() == 200, "C02/list-buckets/status")
		// exactly the model's buckets, listed by name
		vsym.Assert(sameStrings(r.BucketNames(), sortedNames(m.buckets)), "C02/list-buckets/names")
	case 4: // put
		b, k := pickB(), pickK()
		body := vsym.Bytes("body", 1)
		r := Do(h, BodyReq("PUT", "/"+b+"/"+k, nil, body))
		if !m.touch(b) {
			expectErr("C02/put-absent-bucket", r, 404, "NoSuchBucket")
		} else {
			vsym.Assert(r.Code() == 200, "C02/put/status")
			m.buckets[b][k] = body
		}
	case 5, 6: // get, head
		b, k := pickB(), pickK()
		method := "GET"
		if op == 6 {
			method = "HEAD"
		}
		r := Do(h, Req{Method: method, Path: "/" + b + "/" + k})
		if !m.touch(b) {
			vsym.Assert(r.Code() == 404, "C02/read-absent-bucket/status")
			if op == 5 {
				vsym.Assert(r.ErrCode() == "NoSuchBucket", "C02/read-absent-bucket/code")
			}
		} else if body, ok := m.buckets[b][k]; !ok {
			vsym.Assert(r.Code() == 404, "C02/read-absent-key/status")
			if op == 5 {
				vsym.Assert(r.ErrCode() == "NoSuchKey", "C02/read-absent-key/code")
			}
		} else {
			vsym.Assert(r.Code() == 200, "C02/read/status")
			if op == 5 {
				vsym.Assert(string(r.Body) == string(body), "C02/read/most-recent-write")
			} else {
				vsym.Assert(len(r.Body) == 0, "C02/head/empty-body")
			}
			vsym.Assert(r.Hdr.Get("Content-Length") == itoa(len(body)), "C02/read/length")
		}
	case 7: // delete
		b, k := pickB(), pickK()
		r := Do(h, Req{Method: "DELETE", Path: "/" + b + "/" + k})
		if !m.touch(b) {
			expectErr("C02/delete-absent-bucket", r, 404, "NoSuchBucket")
		} else {
			vsym.Assert(r.Code() == 204, "C02/delete/status")
			delete(m.buckets[b], k)
		}
	case 8: // multi-delete of every key
		b := pickB()
		var ids []gofakes3.ObjectID
		for _, k := range keys {
			ids = append(ids, gofakes3.ObjectID{Key: k})
		}
		body := DeleteBody(ids, false)
		rq := BodyReq("POST", "/"+b, nil, body)
		rq.Query = url.Values{"delete": {""}}
		r := Do(h, rq)
		if !m.touch(b) {
			expectErr("C02/multidelete-absent-bucket", r, 404, "NoSuchBucket")
		} else {
			vsym.Assert(r.Code() == 200, "C02/multidelete/status")
			del, nerr, ok := r.Deleted()
			vsym.Assert(ok && nerr == 0 && sameStrings(del, keys), "C02/multidelete/result")
			for _, k := range keys {
				delete(m.buckets[b], k)
			}
		}
	case 9: // copy
		sb, sk := pickB(), pickK()
		db, dk := pickB(), pickK()
		r := Do(h, Req{Method: "PUT", Path: "/" + db + "/" + dk, Header: http.Header{"X-Amz-Copy-Source": {"/" + sb + "/" + sk}}})
		if !m.touch(db) {
			expectErr("C02/copy-absent-dest-bucket", r, 404, "NoSuchBucket")
		} else if _, ok := m.buckets[sb]; !ok {
			expectErr("C02/copy-absent-source-bucket", r, 404, "NoSuchBucket")
		} else if body, ok := m.buckets[sb][sk]; !ok {
			expectErr("C02/copy-absent-source-key", r, 404, "NoSuchKey")
		} else {
			vsym.Assert(r.Code() == 200, "C02/copy/status")
			m.buckets[db][dk] = body
		}
	default: // list bucket
		b := pickB()
		r := Do(h, Req{Method: "GET", Path: "/" + b})
		if !m.touch(b) {
			expectErr("C02/list-absent-bucket", r, 404, "NoSuchBucket")
		} else {
			vsym.Assert(r.Code() == 200, "C02/list/status")
			v := r.List()
			vsym.Assert(v.OK && sameStrings(v.Keys, sortedKeysOf(m.buckets[b])) && !v.IsTruncated, "C02/list/keys")
		}
	}
}

// c02Observe reads everything back and compares with the model.
func c02Observe(h http.Handler, m *model, keys []string) {
	// the bucket list: exactly the model's buckets, by name
	rl := Do(h, Req{Method: "GET", Path: "/"})
	vsym.Assert(rl.Code() == 200 && sameStrings(rl.BucketNames(), sortedNames(m.buckets)), "C02/final/bucket-list")
	for _, b := range c02Buckets {
		if _, ok := m.buckets[b]; !ok {
			continue // probing an absent bucket would create it under auto-bucket
		}
		for _, k := range keys {
			r := Do(h, Req{Method: "GET", Path: "/" + b + "/" + k})
			if body, ok := m.buckets[b][k]; ok {
				vsym.Assert(r.Code() == 200 && string(r.Body) == string(body), "C02/final/object")
			} else {
				vsym.Assert(r.Code() == 404, "C02/final/absent-object")
			}
		}
	}
}

// c02Cleanup: a bucket whose objects have all been deleted can be deleted, and
// is gone afterwards (checked for every bucket the model still has).
func c02Cleanup(h http.Handler, m *model, keys []string) {
	if c02Single {
		return
	}
	for _, b := range c02Buckets {
		if _, ok := m.buckets[b]; !ok {
			continue
		}
		for _, k := range keys {
			vsym.Assert(Do(h, Req{Method: "DELETE", Path: "/" + b + "/" + k}).Code() == 204, "C02/cleanup/delete-object")
		}
		r := Do(h, Req{Method: "DELETE", Path: "/" + b})
		vsym.Assert(r.Code() == 204, "C02/cleanup/emptied-bucket-deletable")
		if m.auto {
			continue // a probe would re-create it
		}
		vsym.Assert(Do(h, Req{Method: "HEAD", Path: "/" + b}).Code() == 404, "C02/cleanup/bucket-gone")
	}
}

// VH_C02_mem: every operation sequence of the given length on the memory backend.
func VH_C02_mem() {
	auto := vsym.Choice("autobucket", 2) == 1
	h, _ := newMemServer(gofakes3.WithAutoBucket(auto))
	m := &model{buckets: map[string]map[string][]byte{}, auto: auto}
	keys := c02Keys()
	if vsym.Choice("seeded", 2) == 1 {
		vsym.Assert(Do(h, Req{Method: "PUT", Path: "/aaa"}).Code() == 200, "C02/seed")
		vsym.Assert(Do(h, BodyReq("PUT", "/aaa/k", nil, []byte("s"))).Code() == 200, "C02/seed")
		m.buckets["aaa"] = map[string][]byte{"k": []byte("s")}
	}
	n := vsym.Param("steps", 2)
	for i := 0; i < n; i++ {
		c02Step(h, m, keys, i)
	}
	c02Observe(h, m, keys)
	c02Cleanup(h, m, keys)
	vsym.Reach("C02/done")
}

// VH_C02: the same sequences on the backend tier selected by "backend".
func VH_C02() {
	kind := backendKind()
	auto := false
	if kind != kindFsSingle {
		auto = vsym.Choice("autobucket", 2) == 1
	}
	h, _ := newServerKind(kind, gofakes3.WithAutoBucket(auto))
	m := &model{buckets: map[string]map[string][]byte{}, auto: auto}
	keys := c02Keys()
	saveB, saveS := c02Buckets, c02Single
	defer func() { c02Buckets, c02Single = saveB, saveS }()
	switch kind {
	case kindFsMulti:
		keys = []string{"d/x", "d/e/y"} // a file and a directory of the same name cannot coexist on a file system
	case kindFsSingle:
		keys = []string{"d/x", "d/e/y"}
		c02Buckets = []string{"bkt", "zzz"}
		c02Single = true
		m.buckets["bkt"] = map[string][]byte{}
	}
	if kind != kindFsSingle && vsym.Choice("seeded", 2) == 1 {
		vsym.Assert(Do(h, Req{Method: "PUT", Path: "/aaa"}).Code() == 200, "C02/seed")
		vsym.Assert(Do(h, BodyReq("PUT", "/aaa/"+keys[0], nil, []byte("s"))).Code() == 200, "C02/seed")
		m.buckets["aaa"] = map[string][]byte{keys[0]: []byte("s")}
	}
	n := vsym.Param("steps", 2)
	for i := 0; i < n; i++ {
		c02Step(h, m, keys, i)
	}
	c02Observe(h, m, keys)
	c02Cleanup(h, m, keys)
	vsym.Reach("C02/done")
}
