package vharn

import (
	"net/http"
	"net/url"

	"github.com/johannesboyne/gofakes3"
	"github.com/johannesboyne/gofakes3/internal/vsym"
)

type partRec struct {
	n    int
	body []byte
	etag string   // latest
	old  []string // etags of earlier uploads of this part number
}

type mpu struct {
	id    string
	parts []*partRec
}

func (u *mpu) find(n int) *partRec {
	for _, p := range u.parts {
		if p.n == n {
			return p
		}
	}
	return nil
}

func initiate(h http.Handler, key string, hdr http.Header) string {
	r := Do(h, Req{Method: "POST", Path: "/bkt/" + key, Query: url.Values{"uploads": {""}}, Header: hdr})
	vsym.Assert(r.Code() == 200, "MPU/initiate-status")
	id := r.UploadID()
	vsym.Assert(id != "", "MPU/initiate-id")
	return id
}

func uploadPart(h http.Handler, key, id string, n int, body []byte) *Recorder {
	rq := BodyReq("PUT", "/bkt/"+key, nil, body)
	rq.Query = url.Values{"uploadId": {id}, "partNumber": {itoa(n)}}
	return Do(h, rq)
}

func partETag(body []byte) string {
	s := vsym.MD5(body)
	return `"` + HexLower(s[:]) + `"`
}

func listParts(h http.Handler, key, id string, extra url.Values) *Recorder {
	q := url.Values{"uploadId": {id}}
	for k, v := range extra {
		q[k] = v
	}
	return Do(h, Req{Method: "GET", Path: "/bkt/" + key, Query: q})
}

// VH_C06: upload parts in any order with re-uploads, then complete with a free
// part list; accepted iff ascending, all uploaded, ETags current.
func VH_C06() {
	h, _ := newMemServer()
	vsym.Assert(Do(h, Req{Method: "PUT", Path: "/bkt"}).Code() == 200, "C06/create-bucket")
	prior := vsym.Choice("prior", vsym.Param("priors", 2)) == 1
	if prior {
		vsym.Assert(Do(h, BodyReq("PUT", "/bkt/k", nil, []byte("old"))).Code() == 200, "C06/prior")
	}
	meta := vsym.String("meta", 1)
	// bystanders: another upload of the same key (started before or after
	// ours) and one of another key; whatever happens to ours leaves them alone
	otherFirst := vsym.Choice("otherfirst", 2) == 1
	var other, otherKey string
	if otherFirst {
		other = initiate(h, "k", http.Header{"X-Amz-Meta-A": {"other"}})
	}
	id := initiate(h, "k", http.Header{"X-Amz-Meta-A": {meta}})
	if !otherFirst {
		other = initiate(h, "k", http.Header{"X-Amz-Meta-A": {"other"}})
	}
	otherKey = initiate(h, "j", http.Header{})
	vsym.Assert(uploadPart(h, "k", other, 1, []byte("o1")).Code() == 200, "C06/bystander-part")
	vsym.Assert(uploadPart(h, "j", otherKey, 3, []byte("j3")).Code() == 200, "C06/bystander-part")
	// a new upload started after ours is gone gets an id of its own and
	// leaves the pending ones alone
	freshUpload := func(tag string) {
		fresh := initiate(h, "k", http.Header{})
		vsym.Assert(fresh != id && fresh != other && fresh != otherKey, tag+"/fresh-upload-id-reused")
	}
	bystanders := func(tag string) {
		po := listParts(h, "k", other, nil).Parts()
		vsym.Assert(po.OK && len(po.Numbers) == 1 && po.Numbers[0] == 1 && po.ETags[0] == partETag([]byte("o1")), tag+"/bystander-upload-same-key")
		pj := listParts(h, "j", otherKey, nil).Parts()
		vsym.Assert(pj.OK && len(pj.Numbers) == 1 && pj.Numbers[0] == 3 && pj.ETags[0] == partETag([]byte("j3")), tag+"/bystander-upload-other-key")
	}
	u := &mpu{id: id}
	nUp := 1 + vsym.Choice("uploads", vsym.Param("maxuploads", 2))
	for i := 0; i < nUp; i++ {
		n := 1 + vsym.Choice("pn", vsym.Param("maxpn", 3))
		body := vsym.Bytes("pb", 1+vsym.Choice("plen", vsym.Param("maxplen", 2)))
		r := uploadPart(h, "k", id, n, body)
		vsym.Assert(r.Code() == 200, "C06/upload-part-status")
		et := partETag(body)
		vsym.Assert(r.Hdr.Get("ETag") == et, "C06/upload-part-etag")
		if p := u.find(n); p != nil {
			p.old = append(p.old, p.etag)
			p.body, p.etag = body, et
		} else {
			u.parts = append(u.parts, &partRec{n: n, body: body, etag: et})
		}
	}
	// completion list
	nl := 1 + vsym.Choice("listlen", vsym.Param("maxlist", 2))
	var list []gofakes3.CompletedPart
	valid := true // every entry names an uploaded part with its current ETag
	var want []byte
	var digests []byte
	usedFree := false
	for i := 0; i < nl; i++ {
		switch vsym.Choice("entry", 4) {
		case 0, 1: // an uploaded part, current ETag
			p := u.parts[vsym.Choice("which", len(u.parts))]
			list = append(list, gofakes3.CompletedPart{PartNumber: p.n, ETag: p.etag})
			want = append(want, p.body...)
			d := vsym.MD5(p.body)
			digests = append(digests, d[:]...)
		case 2: // an uploaded part with a stale or junk ETag
			p := u.parts[vsym.Choice("which", len(u.parts))]
			et := `"` + vsym.String("junk", 2) + `"`
			if len(p.old) > 0 {
				et = p.old[0]
			}
			if et == p.etag {
				vsym.Assume(false)
			}
			list = append(list, gofakes3.CompletedPart{PartNumber: p.n, ETag: et})
			valid = false
		default: // a free part number (negative, zero, huge, or a real one); at most one per list
			if usedFree {
				vsym.Assume(false)
			}
			usedFree = true
			n := vsym.Int("freepn")
			if p := u.find(n); p != nil {
				vsym.Assume(false) // covered by the cases above
			}
			list = append(list, gofakes3.CompletedPart{PartNumber: n, ETag: `"00"`})
			valid = false
		}
	}
	ascending, strictly := true, true
	for i := 1; i < len(list); i++ {
		if list[i].PartNumber < list[i-1].PartNumber {
			ascending = false
		}
		if list[i].PartNumber <= list[i-1].PartNumber {
			strictly = false
		}
	}
	before := Do(h, Req{Method: "GET", Path: "/bkt/k"})
	partsBefore := listParts(h, "k", id, nil).Parts()

	rq := BodyReq("POST", "/bkt/k", nil, CompleteBody(list))
	rq.Query = url.Values{"uploadId": {id}}
	r := Do(h, rq)
	mustAccept := valid && strictly
	mustReject := !valid || !ascending
	if r.Code() == 200 {
		vsym.Reach("C06/accepted")
		vsym.Assert(!mustReject, "C06/bad-part-list-accepted")
		if !mustReject && strictly {
			g := Do(h, Req{Method: "GET", Path: "/bkt/k"})
			vsym.Assert(g.Code() == 200 && string(g.Body) == string(want), "C06/object-is-concatenation")
			vsym.Assert(g.Hdr.Get("X-Amz-Meta-A") == meta, "C06/object-metadata")
			sum := vsym.MD5(digests)
			vsym.Assert(r.CompleteETag() == `"`+HexLower(sum[:])+"-"+itoa(len(list))+`"`, "C06/multipart-etag")
		}
		// the upload id is gone
		vsym.Assert(listParts(h, "k", id, nil).ErrCode() == "NoSuchUpload", "C06/upload-id-gone")
		rq2 := BodyReq("POST", "/bkt/k", nil, CompleteBody(list))
		rq2.Query = url.Values{"uploadId": {id}}
		vsym.Assert(Do(h, rq2).ErrCode() == "NoSuchUpload", "C06/second-complete")
		bystanders("C06/complete")
		freshUpload("C06/complete")
		bystanders("C06/complete-then-new-upload")
	} else {
		vsym.Reach("C06/rejected")
		vsym.Assert(!mustAccept, "C06/good-part-list-rejected")
		vsym.Assert(r.Code() == 400, "C06/reject-status")
		code := r.ErrCode()
		vsym.Assert(code == "InvalidPart" || code == "InvalidPartOrder", "C06/reject-code")
		after := Do(h, Req{Method: "GET", Path: "/bkt/k"})
		vsym.Assert(after.Code() == before.Code() && string(after.Body) == string(before.Body), "C06/reject-leaves-object")
		pa := listParts(h, "k", id, nil).Parts()
		vsym.Assert(pa.OK && len(pa.Numbers) == len(partsBefore.Numbers), "C06/reject-leaves-upload")
		vsym.Assert(sameInt64s(pa.Sizes, partsBefore.Sizes) && sameStrings(pa.ETags, partsBefore.ETags), "C06/reject-leaves-parts-intact")
		// abort discards the upload without touching the object
		ab := Do(h, Req{Method: "DELETE", Path: "/bkt/k", Query: url.Values{"uploadId": {id}}})
		vsym.Assert(ab.Code() == 204, "C06/abort-status")
		after2 := Do(h, Req{Method: "GET", Path: "/bkt/k"})
		vsym.Assert(after2.Code() == before.Code() && string(after2.Body) == string(before.Body), "C06/abort-leaves-object")
		vsym.Assert(listParts(h, "k", id, nil).ErrCode() == "NoSuchUpload", "C06/abort-removes-upload")
		bystanders("C06/abort")
		freshUpload("C06/abort")
		bystanders("C06/abort-then-new-upload")
		// the bystander on the same key can still be completed
		rqo := BodyReq("POST", "/bkt/k", nil, CompleteBody([]gofakes3.CompletedPart{{PartNumber: 1, ETag: partETag([]byte("o1"))}}))
		rqo.Query = url.Values{"uploadId": {other}}
		vsym.Assert(Do(h, rqo).Code() == 200, "C06/bystander-completes")
		go1 := Do(h, Req{Method: "GET", Path: "/bkt/k"})
		vsym.Assert(go1.Code() == 200 && string(go1.Body) == "o1" && go1.Hdr.Get("X-Amz-Meta-A") == "other", "C06/bystander-object")
	}
}
