package vharn

import (
	"bytes"
	"io"

	"github.com/johannesboyne/gofakes3"
	"github.com/johannesboyne/gofakes3/internal/vsym"
)

type objSnap struct {
	ok   bool
	body string
	meta string
	hash string
}

func readObj(b gofakes3.Backend, bucket, key string) objSnap {
	o, err := b.GetObject(bucket, key, nil)
	if err != nil || o == nil {
		return objSnap{}
	}
	defer o.Contents.Close()
	data, err := io.ReadAll(o.Contents)
	if err != nil {
		return objSnap{}
	}
	return objSnap{true, string(data), o.Metadata["X-Amz-Meta-A"], string(o.Hash)}
}

func listKeys(b gofakes3.Backend, bucket string) ([]string, bool) {
	l, err := b.ListBucket(bucket, nil, gofakes3.ListBucketPage{})
	if err != nil || l == nil {
		return nil, false
	}
	var ks []string
	for _, c := range l.Contents {
		ks = append(ks, c.Key)
	}
	return ks, true
}

func bucketNames(b gofakes3.Backend) []string {
	bs, err := b.ListBuckets()
	if err != nil {
		return []string{"<error>"}
	}
	var n []string
	for _, x := range bs {
		n = append(n, x.Name)
	}
	for i := 1; i < len(n); i++ {
		for j := i; j > 0 && n[j] < n[j-1]; j-- {
			n[j], n[j-1] = n[j-1], n[j]
		}
	}
	return n
}

// VH_C10: one operation addressed to (b1, k1) with a free-byte key leaves every
// other (bucket, key) untouched and never reads or writes outside b1.
func VH_C10() {
	kind := backendKind()
	b := newBackend(kind)
	buckets := []string{"aaa", "bbb"}
	if kind == kindFsSingle {
		buckets = []string{"bkt"}
	} else {
		for _, n := range buckets {
			if err := b.CreateBucket(n); err != nil {
				panic(err)
			}
		}
	}
	fixed := []string{"x", "d/y"}
	for bi, n := range buckets {
		for ki, k := range fixed {
			body := []byte{byte('A' + 2*bi + ki)}
			if _, err := b.PutObject(n, k, map[string]string{"X-Amz-Meta-A": "m-" + n + "-" + k}, bytes.NewReader(body), 1); err != nil {
				panic(err)
			}
		}
	}
	// the addressed bucket: one of the real ones, or (bolt) the bookkeeping bucket's name
	targets := buckets
	if kind == kindBolt {
		targets = append(append([]string(nil), buckets...), "_meta")
	}
	b1 := targets[vsym.Choice("bucket", len(targets))]
	kl := 1 + vsym.Choice("keylen", vsym.Param("maxkeylen", 3))
	k1 := vsym.String("key", kl)
	// optionally continue the free bytes with the path of another bucket's key,
	// so that "../" + "bbb/x" and similar escapes are inside the bound
	if len(buckets) > 1 {
		switch vsym.Choice("tail", 3) {
		case 1:
			k1 += "bbb/x"
		case 2:
			k1 += "aaa/d/y"
		}
	}
	if vsym.Param("pathlike", 0) == 1 {
		// concentrate on path-like keys: bytes from { '.', '/', '\\', 'b', 'x' }
		for i := 0; i < kl; i++ { // only the free bytes
			c := k1[i]
			vsym.Assume(c == '.' || c == '/' || c == '\\' || c == '_' || c == 'b' || c == 'x' || c == 'd' || c == 'y')
		}
	}

	type frame struct {
		objs  []objSnap
		lists [][]string
		names []string
	}
	snap := func() frame {
		var f frame
		for _, n := range buckets {
			for _, k := range fixed {
				f.objs = append(f.objs, readObj(b, n, k))
			}
			ks, _ := listKeys(b, n)
			f.lists = append(f.lists, ks)
		}
		f.names = bucketNames(b)
		return f
	}
	before := snap()
	isFixed := false
	for _, k := range fixed {
		if k1 == k {
			isFixed = true
		}
	}
	isReal := b1 != "_meta"

	op := vsym.Choice("op", 5)
	accepted := true
	wrote := false
	switch op {
	case 0: // put
		_, err := b.PutObject(b1, k1, map[string]string{"X-Amz-Meta-A": "new"}, bytes.NewReader([]byte("N")), 1)
		accepted = err == nil
		wrote = accepted
	case 1: // delete
		_, err := b.DeleteObject(b1, k1)
		accepted = err == nil
		wrote = accepted
	case 2: // multi-delete
		_, err := b.DeleteMulti(b1, k1)
		accepted = err == nil
		wrote = accepted
	case 3: // copy from (first bucket, x)
		_, err := b.CopyObject(buckets[0], "x", b1, k1, map[string]string{})
		accepted = err == nil
		wrote = accepted
	default: // read: must not see anything that was not written under (b1, k1)
		got := readObj(b, b1, k1)
		if got.ok {
			vsym.Assert(isReal && isFixed, "C10/read-outside-addressed-bucket")
		}
	}
	if !isReal {
		// the bookkeeping bucket is not an S3 bucket: nothing may be accepted there
		vsym.Assert(!wrote, "C10/internal-storage-writable")
	}
	after := snap()
	idx := 0
	for bi, n := range buckets {
		for _, k := range fixed {
			touched := wrote && n == b1 && k == k1
			if !touched {
				vsym.Assert(before.objs[idx] == after.objs[idx], "C10/other-object-changed")
			}
			idx++
		}
		if !(wrote && n == b1) {
			vsym.Assert(sameStrings(before.lists[bi], after.lists[bi]), "C10/other-bucket-listing-changed")
		} else {
			// the addressed bucket: the fixed keys other than k1 are still listed
			for _, k := range fixed {
				if k == k1 {
					continue
				}
				found := false
				for _, l := range after.lists[bi] {
					if l == k {
						found = true
					}
				}
				vsym.Assert(found, "C10/other-key-unlisted")
			}
		}
	}
	vsym.Assert(sameStrings(before.names, after.names), "C10/bucket-list-changed")
	for _, n := range after.names {
		vsym.Assert(n != "_meta" && n != "metadata" && n != "buckets", "C10/internal-storage-listed")
	}
	if accepted {
		vsym.Reach("C10/accepted")
	} else {
		vsym.Reach("C10/refused")
	}
}
