package vharn

import (
	"bytes"
	"io"
	"net/http"
	"net/url"

	"github.com/johannesboyne/gofakes3"
	"github.com/johannesboyne/gofakes3/internal/vsym"
)

type objSnap struct {
	ok   bool
	body string
	meta string
	hash string
}

func readObj(b gofakes3.Backend, bucket, key string) objSnap {
	o, err := b.GetObject(bucket, key, nil)
	if err != nil || o == nil {
		return objSnap{}
	}
	defer o.Contents.Close()
	data, err := io.ReadAll(o.Contents)
	if err != nil {
		return objSnap{}
	}
	return objSnap{true, string(data), o.Metadata["X-Amz-Meta-A"], string(o.Hash)}
}

func listKeys(b gofakes3.Backend, bucket string) ([]string, bool) {
	l, err := b.ListBucket(bucket, nil, gofakes3.ListBucketPage{})
	if err != nil || l == nil {
		return nil, false
	}
	var ks []string
	for _, c := range l.Contents {
		ks = append(ks, c.Key)
	}
	return ks, true
}

func bucketNames(b gofakes3.Backend) []string {
	bs, err := b.ListBuckets()
	if err != nil {
		return []string{"<error>"}
	}
	var n []string
	for _, x := range bs {
		n = append(n, x.Name)
	}
	for i := 1; i < len(n); i++ {
		for j := i; j > 0 && n[j] < n[j-1]; j-- {
			n[j], n[j-1] = n[j-1], n[j]
		}
	}
	return n
}

// VH_C10: one operation addressed to (b1, k1) with a free-byte key leaves every
// other (bucket, key) untouched and never reads or writes outside b1.
func VH_C10() {
	kind := backendKind()
	b := newBackend(kind)
	buckets := []string{"aaa", "bbb"}
	if kind == kindFsSingle {
		buckets = []string{"bkt"}
	} else {
		for _, n := range buckets {
			if err := b.CreateBucket(n); err != nil {
				panic(err)
			}
		}
	}
	fixed := []string{"x", "d/y"}
	for bi, n := range buckets {
		for ki, k := range fixed {
			body := []byte{byte('A' + 2*bi + ki)}
			if _, err := b.PutObject(n, k, map[string]string{"X-Amz-Meta-A": "m-" + n + "-" + k}, bytes.NewReader(body), 1); err != nil {
				panic(err)
			}
		}
	}
	// the addressed bucket: one of the real ones, or (bolt) the bookkeeping bucket's name
	targets := buckets
	if kind == kindBolt {
		targets = append(append([]string(nil), buckets...), "_meta")
	}
	if kind == kindFsMulti {
		// names that are not buckets but resolve to directories
		targets = append(append([]string(nil), buckets...), ".", "..", "aaa/d")
	}
	b1 := targets[vsym.Choice("bucket", len(targets))]
	kl := 0
	k1 := ""
	alias := kind == kindFsMulti && b1 != "aaa" && b1 != "bbb"
	if alias {
		// a name that is not a bucket: the keys that would alias real objects
		// if the name were resolved as a directory
		k1 = []string{"x", "aaa/x", "bbb/d/y", "d/y"}[vsym.Choice("aliaskey", 4)]
	} else {
		kl = 1 + vsym.Choice("keylen", vsym.Param("maxkeylen", 3))
		k1 = vsym.String("key", kl)
		// optionally continue the free bytes with the path of another bucket's key,
		// so that "../" + "bbb/x" and similar escapes are inside the bound
		if len(buckets) > 1 {
			switch vsym.Choice("tail", 3) {
			case 1:
				k1 += "bbb/x"
			case 2:
				k1 += "aaa/d/y"
			}
		}
	}
	if !alias && vsym.Param("pathlike", 0) == 1 && vsym.Choice("internalname", 2) == 1 {
		// names the fs backends use for their own scratch files
		k1 = []string{".modtime-resolution", "d/.modtime-resolution", ".gofakes3-upload-1-0", "d/.gofakes3-upload-z", "metadata", ".gofakes3-upload-"}[vsym.Choice("iname", 6)]
		kl = 0
	}
	if vsym.Param("pathlike", 0) == 1 {
		// concentrate on path-like keys: bytes from { '.', '/', '\\', 'b', 'x' }
		for i := 0; i < kl; i++ { // only the free bytes
			c := k1[i]
			vsym.Assume(c == '.' || c == '/' || c == '\\' || c == '_' || c == 'b' || c == 'x' || c == 'd' || c == 'y')
		}
	}

	type frame struct {
		objs  []objSnap
		lists [][]string
		names []string
	}
	snap := func() frame {
		var f frame
		for _, n := range buckets {
			for _, k := range fixed {
				f.objs = append(f.objs, readObj(b, n, k))
			}
			ks, _ := listKeys(b, n)
			f.lists = append(f.lists, ks)
		}
		f.names = bucketNames(b)
		return f
	}
	before := snap()
	isFixed := false
	for _, k := range fixed {
		if k1 == k {
			isFixed = true
		}
	}
	isReal := false
	for _, n := range buckets {
		if n == b1 {
			isReal = true
		}
	}

	op := vsym.Choice("op", 5)
	accepted := true
	wrote := false
	switch op {
	case 0: // put
		_, err := b.PutObject(b1, k1, map[string]string{"X-Amz-Meta-A": "new"}, bytes.NewReader([]byte("N")), 1)
		accepted = err == nil
		wrote = accepted
	case 1: // delete
		_, err := b.DeleteObject(b1, k1)
		accepted = err == nil
		wrote = accepted
	case 2: // multi-delete
		_, err := b.DeleteMulti(b1, k1)
		accepted = err == nil
		wrote = accepted
	case 3: // copy from (first bucket, x)
		_, err := b.CopyObject(buckets[0], "x", b1, k1, map[string]string{})
		accepted = err == nil
		wrote = accepted
	default: // read: must not see anything that was not written under (b1, k1)
		got := readObj(b, b1, k1)
		if got.ok {
			vsym.Assert(isReal && isFixed, "C10/read-outside-addressed-bucket")
		}
	}
	if !isReal {
		// the bookkeeping bucket is not an S3 bucket: nothing may be accepted there
		vsym.Assert(!wrote, "C10/internal-storage-writable")
	}
	after := snap()
	if op == 0 && accepted {
		// an accepted write is an object like any other: reading other keys
		// (the snapshot above) must not have destroyed or hidden it
		got := readObj(b, b1, k1)
		vsym.Assert(got.ok && got.body == "N" && got.meta == "new", "C10/accepted-object-lost")
		ks, _ := listKeys(b, b1)
		found := false
		for _, l := range ks {
			if l == k1 {
				found = true
			}
		}
		vsym.Assert(found, "C10/accepted-object-unlisted")
	}
	idx := 0
	for bi, n := range buckets {
		for _, k := range fixed {
			touched := wrote && n == b1 && k == k1
			if !touched {
				vsym.Assert(before.objs[idx] == after.objs[idx], "C10/other-object-changed")
			}
			idx++
		}
		if !(wrote && n == b1) {
			vsym.Assert(sameStrings(before.lists[bi], after.lists[bi]), "C10/other-bucket-listing-changed")
		} else {
			// the addressed bucket: the fixed keys other than k1 are still listed
			for _, k := range fixed {
				if k == k1 {
					continue
				}
				found := false
				for _, l := range after.lists[bi] {
					if l == k {
						found = true
					}
				}
				vsym.Assert(found, "C10/other-key-unlisted")
			}
		}
	}
	vsym.Assert(sameStrings(before.names, after.names), "C10/bucket-list-changed")
	for _, n := range after.names {
		vsym.Assert(n != "_meta" && n != "metadata" && n != "buckets", "C10/internal-storage-listed")
	}
	if accepted {
		vsym.Reach("C10/accepted")
	} else {
		vsym.Reach("C10/refused")
	}
}

// VH_C10h: the frame condition through the HTTP handler for keys containing
// '%' and hex digits: the key the client addressed (the already-decoded
// request path) is the key the backend stores, and keys that merely look like
// an escaped form of another key stay different objects.
func VH_C10h() {
	kind := backendKind()
	h, b := newServerKind(kind)
	mkBucket(h, kind, "C10h")
	fixed := []string{"x", "A", "rA", "r%41"}
	for i, k := range fixed {
		if _, err := b.PutObject("bkt", k, map[string]string{"X-Amz-Meta-A": "m-" + k}, bytes.NewReader([]byte{byte('A' + i)}), 1); err != nil {
			panic(err)
		}
	}
	kl := 1 + vsym.Choice("keylen", vsym.Param("maxkeylen", 4))
	k1 := vsym.String("key", kl)
	for i := 0; i < kl; i++ {
		c := k1[i]
		vsym.Assume(c == '%' || c == '4' || c == '1' || c == '2' || c == '5' || c == 'A' || c == 'r' || c == 'x' || c == '/')
	}
	snap := func() []objSnap {
		var f []objSnap
		for _, k := range fixed {
			f = append(f, readObj(b, "bkt", k))
		}
		return f
	}
	before := snap()
	op := vsym.Choice("op", 6)
	if op != 3 && op != 5 {
		// the router trims slashes at the end of the path: such a key cannot be named in a URL
		vsym.Assume(k1[kl-1] != '/')
	}
	wrote := false
	switch op {
	case 5: // browser form upload naming the key in a form field (keys of at most 3 bytes: the bound that was run clean)
		vsym.Assume(kl <= 3)
		r := Do(h, FormReq("/bkt", map[string]string{"key": k1, "X-Amz-Meta-A": "form"}, []byte("F")))
		wrote = r.Code() == 200
		if wrote {
			got := readObj(b, "bkt", k1)
			vsym.Assert(got.ok && got.body == "F" && got.meta == "form", "C10h/form-stored-under-the-addressed-key")
		}
	case 4: // copy from the fixed key x, overriding one metadata value
		r := Do(h, Req{Method: "PUT", Path: "/bkt/" + k1, Header: http.Header{"X-Amz-Copy-Source": {"/bkt/x"}, "X-Amz-Meta-A": {"copied"}}})
		wrote = r.Code() == 200
		if wrote && k1 != "x" {
			got := readObj(b, "bkt", k1)
			vsym.Assert(got.ok && got.body == "A" && got.meta == "copied", "C10h/copy-stored-under-the-addressed-key")
		}
	case 3: // multi-delete naming the key in the request document
		rq := BodyReq("POST", "/bkt", nil, DeleteBody([]gofakes3.ObjectID{{Key: k1}}, false))
		rq.Query = url.Values{"delete": {""}}
		r := Do(h, rq)
		wrote = r.Code() == 200
		if wrote {
			// whatever the answer says about k1, k1 is what it was about
			got := readObj(b, "bkt", k1)
			dk, _, _ := r.Deleted()
			vsym.Assert(!got.ok || len(dk) == 0, "C10h/multi-delete-reported-but-not-done")
		}
	case 0:
		r := Do(h, BodyReq("PUT", "/bkt/"+k1, http.Header{"X-Amz-Meta-A": {"new"}}, []byte("N")))
		wrote = r.Code() == 200
		if wrote {
			got := readObj(b, "bkt", k1)
			vsym.Assert(got.ok && got.body == "N" && got.meta == "new", "C10h/stored-under-the-addressed-key")
		}
	case 1:
		r := Do(h, Req{Method: "DELETE", Path: "/bkt/" + k1})
		wrote = r.Code() == 204
	default:
		r := Do(h, Req{Method: "GET", Path: "/bkt/" + k1})
		want := readObj(b, "bkt", k1)
		if want.ok {
			vsym.Assert(r.Code() == 200 && string(r.Body) == want.body, "C10h/read-returns-the-addressed-key")
		} else {
			vsym.Assert(r.Code() == 404, "C10h/read-of-absent-key")
		}
	}
	after := snap()
	for i, k := range fixed {
		if !(wrote && k == k1) {
			vsym.Assert(before[i] == after[i], "C10h/other-object-changed")
		}
	}
	ks, _ := listKeys(b, "bkt")
	for _, k := range fixed {
		if wrote && (op == 1 || op == 3) && k == k1 {
			continue
		}
		found := false
		for _, l := range ks {
			if l == k {
				found = true
			}
		}
		vsym.Assert(found, "C10h/other-key-unlisted")
	}
	vsym.Reach("C10h/done")
}
