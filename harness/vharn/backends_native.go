//go:build !vsymbolic

package vharn

import (
	"os"
	"path/filepath"

	"github.com/johannesboyne/gofakes3/backend/s3bolt"
)

// newBoltBackend: s3bolt on a real bbolt file in a temporary directory
// (native replays exercise real bbolt and BSON).
func newBoltBackend() *s3bolt.Backend {
	dir, err := os.MkdirTemp("", "vharn-bolt-")
	if err != nil {
		panic(err)
	}
	tempDirs = append(tempDirs, dir)
	b, err := s3bolt.NewFile(filepath.Join(dir, "s3.db"))
	if err != nil {
		panic(err)
	}
	return b
}

var tempDirs []string

// Cleanup removes temporary directories created by native runs.
func Cleanup() {
	for _, d := range tempDirs {
		os.RemoveAll(d)
	}
	tempDirs = nil
}
