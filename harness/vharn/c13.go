package vharn

import (
	"net/http"
	"net/url"
	"strings"

	"github.com/johannesboyne/gofakes3/internal/vsym"
)

// checkVersionGroup compares the listed entries of one key with the model stack.
func checkVersionGroup(items []VersionEntry, stack []verEntry, mode int) {
	vsym.Assert(len(items) == len(stack), "C13/each-version-once")
	if len(items) != len(stack) || len(stack) == 0 {
		return
	}
	latest := 0
	for _, it := range items {
		if it.IsLatest {
			latest++
		}
	}
	vsym.Assert(latest == 1, "C13/exactly-one-latest")
	top := stack[len(stack)-1]
	for _, e := range stack {
		n := 0
		for _, it := range items {
			match := false
			if mode == 0 {
				// never versioned: a single entry reported as "null"
				match = it.VersionID == "null"
			} else if e.id != "" {
				match = it.VersionID == e.id
			} else {
				// a null version: the server reports an id the client never saw
				known := false
				for _, o := range stack {
					if o.id != "" && o.id == it.VersionID {
						known = true
					}
				}
				match = !known
			}
			if !match {
				continue
			}
			n++
			vsym.Assert(it.Marker == e.marker, "C13/marker-flag")
			if !e.marker {
				vsym.Assert(it.Size == int64(len(e.body)), "C13/size")
				vsym.Assert(it.ETag == etagOf(e.body), "C13/etag")
			}
			isTop := e.id == top.id && e.marker == top.marker && string(e.body) == string(top.body)
			if e.id != "" || mode == 0 {
				vsym.Assert(it.IsLatest == (e.id == top.id), "C13/latest-is-what-a-read-resolves-to")
			} else {
				vsym.Assert(it.IsLatest == isTop, "C13/latest-is-what-a-read-resolves-to")
			}
		}
		vsym.Assert(n == 1, "C13/version-listed-exactly-once")
	}
}

// VH_C13: ListObjectVersions after version histories over keys j, k.
func VH_C13() {
	h, _ := newMemServer()
	vsym.Assert(Do(h, Req{Method: "PUT", Path: "/bkt"}).Code() == 200, "C13/create-bucket")
	m := &verModel{stack: map[string][]verEntry{}, fuzzy: map[string]bool{}}
	keys := []string{"j", "k"}
	if vsym.Param("slashkey", 0) == 1 {
		keys[1] = "k/x"
	}
	if vsym.Param("startenabled", 1) == 1 {
		vsym.Assert(setVersioning(h, "Enabled").Code() == 200, "C13/enable")
		m.mode = 1
	}
	n := vsym.Param("steps", 3)
	for i := 0; i < n; i++ {
		c05Step(h, m, keys)
	}
	total := len(m.stack[keys[0]]) + len(m.stack[keys[1]])
	if total == 0 {
		vsym.Assume(false)
	}
	paged := vsym.Param("paged", 1) == 1
	maxKeys := total + 1
	if paged {
		maxKeys = 1 + vsym.Choice("maxkeys", total+1)
	}
	all, _, ok := c13Walk(h, "", "", maxKeys, total)
	if !ok {
		return
	}
	// grouped by key in ascending key order
	var js, ks []VersionEntry
	seenK := false
	for _, it := range all {
		if it.Key == keys[0] {
			vsym.Assert(!seenK, "C13/grouped-by-ascending-key")
			js = append(js, it)
		} else {
			vsym.Assert(it.Key == keys[1], "C13/unknown-key")
			seenK = true
			ks = append(ks, it)
		}
	}
	checkVersionGroup(js, m.stack[keys[0]], m.mode)
	checkVersionGroup(ks, m.stack[keys[1]], m.mode)
	if len(js) != len(m.stack[keys[0]]) || len(ks) != len(m.stack[keys[1]]) {
		return
	}

	switch vsym.Choice("probe", 4) {
	case 1:
		// a marker pair naming an existing version: the listing resumes at it
		i := vsym.Choice("from", len(all))
		q := url.Values{"versions": {""}, "key-marker": {all[i].Key}, "version-id-marker": {all[i].VersionID}}
		r := Do(h, Req{Method: "GET", Path: "/bkt", Query: q, Header: http.Header{}})
		v := r.Versions()
		vsym.Assert(r.Code() == 200 && v.OK, "C13/named-marker/status")
		if v.OK {
			vsym.Assert(!v.IsTruncated, "C13/named-marker/truncated")
			vsym.Assert(sameVersionEntries(v.Items, all[i:]), "C13/named-marker/resumes-at-the-named-version")
		}
	case 2:
		// a prefix selecting one key, walked with the same page size
		got, _, ok := c13Walk(h, keys[1], "", maxKeys, total)
		if ok {
			vsym.Assert(sameVersionEntries(got, ks), "C13/prefix/exactly-the-matching-versions")
		}
		none, _, ok := c13Walk(h, "zz", "", maxKeys, total)
		if ok {
			vsym.Assert(len(none) == 0, "C13/prefix/no-match-is-empty")
		}
	case 3:
		// a delimiter: keys containing it are rolled up, the others listed
		got, prefixes, ok := c13Walk(h, "", "/", maxKeys, total)
		if ok {
			if strings.Contains(keys[1], "/") {
				vsym.Assert(sameVersionEntries(got, js), "C13/delimiter/ungrouped-versions")
				want := []string{}
				if len(ks) > 0 {
					want = []string{keys[1][:strings.Index(keys[1], "/")+1]}
				}
				vsym.Assert(sameStrings(prefixes, want), "C13/delimiter/common-prefixes")
			} else {
				vsym.Assert(sameVersionEntries(got, all), "C13/delimiter/ungrouped-versions")
				vsym.Assert(len(prefixes) == 0, "C13/delimiter/common-prefixes")
			}
		}
	}
	vsym.Reach("C13/done")
}

func sameVersionEntries(a, b []VersionEntry) bool {
	if len(a) != len(b) {
		return false
	}
	same := true
	for i := range a {
		same = vsym.And(same, a[i] == b[i])
	}
	return same
}

// c13Walk pages through ListObjectVersions with the markers the server supplies.
func c13Walk(h http.Handler, prefix, delimiter string, maxKeys, total int) (all []VersionEntry, prefixes []string, ok bool) {
	keyMarker, verMarker := "", ""
	for page := 0; ; page++ {
		vsym.Assert(page <= total+1, "C13/terminates")
		if page > total+1 {
			return nil, nil, false
		}
		q := url.Values{"versions": {""}, "max-keys": {itoa(maxKeys)}}
		if prefix != "" {
			q.Set("prefix", prefix)
		}
		if delimiter != "" {
			q.Set("delimiter", delimiter)
		}
		if keyMarker != "" {
			q.Set("key-marker", keyMarker)
			if verMarker != "" {
				q.Set("version-id-marker", verMarker)
			}
		}
		r := Do(h, Req{Method: "GET", Path: "/bkt", Query: q, Header: http.Header{}})
		vsym.Assert(r.Code() == 200, "C13/status")
		v := r.Versions()
		vsym.Assert(v.OK, "C13/document")
		if !v.OK {
			return nil, nil, false
		}
		vsym.Assert(len(v.Items) <= maxKeys, "C13/page-size")
		all = append(all, v.Items...)
		for _, p := range v.Prefixes {
			dup := false
			for _, o := range prefixes {
				if o == p {
					dup = true
				}
			}
			vsym.Assert(!dup, "C13/common-prefix-repeated")
			prefixes = append(prefixes, p)
		}
		if !v.IsTruncated {
			return all, prefixes, true
		}
		vsym.Reach("C13/truncated")
		vsym.Assert(v.NextKeyMarker != "", "C13/truncated-has-key-marker")
		vsym.Assert(v.NextVersionIDMarker != "", "C13/truncated-has-version-marker")
		if v.NextKeyMarker == "" {
			return nil, nil, false
		}
		keyMarker, verMarker = v.NextKeyMarker, v.NextVersionIDMarker
	}
}

// VH_C13d: a delimited version listing over three keys (j, k/x, z): a page
// may end right before the key that is rolled up into the common prefix k/,
// and the keys after it are still listed completely.
func VH_C13d() {
	h, _ := newMemServer()
	vsym.Assert(Do(h, Req{Method: "PUT", Path: "/bkt"}).Code() == 200, "C13d/create-bucket")
	m := &verModel{stack: map[string][]verEntry{}, fuzzy: map[string]bool{}}
	keys := []string{"j", "k/x", "z"}
	vsym.Assert(setVersioning(h, "Enabled").Code() == 200, "C13d/enable")
	m.mode = 1
	// z already has a version that is older than anything the steps create
	r0 := Do(h, BodyReq("PUT", "/bkt/z", c05Meta([]byte("0")), []byte("0")))
	vsym.Assert(r0.Code() == 200, "C13d/put-status")
	m.stack["z"] = append(m.stack["z"], verEntry{id: r0.Hdr.Get("x-amz-version-id"), body: []byte("0"), enabled: true})
	n := vsym.Param("steps", 3)
	for i := 0; i < n; i++ {
		c05Step(h, m, keys)
	}
	total := len(m.stack["j"]) + len(m.stack["z"])
	maxKeys := 1 + vsym.Choice("maxkeys", total+1)
	got, prefixes, ok := c13Walk(h, "", "/", maxKeys, total+len(m.stack["k/x"]))
	if !ok {
		return
	}
	var js, zs []VersionEntry
	seenZ := false
	for _, it := range got {
		if it.Key == "j" {
			vsym.Assert(!seenZ, "C13d/grouped-by-ascending-key")
			js = append(js, it)
		} else {
			vsym.Assert(it.Key == "z", "C13d/rolled-up-key-listed")
			seenZ = true
			zs = append(zs, it)
		}
	}
	checkVersionGroup(js, m.stack["j"], m.mode)
	checkVersionGroup(zs, m.stack["z"], m.mode)
	want := []string{}
	if len(m.stack["k/x"]) > 0 {
		want = []string{"k/"}
	}
	vsym.Assert(sameStrings(prefixes, want), "C13d/common-prefixes")
	vsym.Reach("C13d/done")
}
