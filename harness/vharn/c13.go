package vharn

import (
	"net/http"
	"net/url"

	"github.com/johannesboyne/gofakes3/internal/vsym"
)

// checkVersionGroup compares the listed entries of one key with the model stack.
func checkVersionGroup(items []VersionEntry, stack []verEntry, mode int) {
	vsym.Assert(len(items) == len(stack), "C13/each-version-once")
	if len(items) != len(stack) || len(stack) == 0 {
		return
	}
	latest := 0
	for _, it := range items {
		if it.IsLatest {
			latest++
		}
	}
	vsym.Assert(latest == 1, "C13/exactly-one-latest")
	top := stack[len(stack)-1]
	for _, e := range stack {
		n := 0
		for _, it := range items {
			match := false
			if mode == 0 {
				// never versioned: a single entry reported as "null"
				match = it.VersionID == "null"
			} else if e.id != "" {
				match = it.VersionID == e.id
			} else {
				// a null version: the server reports an id the client never saw
				known := false
				for _, o := range stack {
					if o.id != "" && o.id == it.VersionID {
						known = true
					}
				}
				match = !known
			}
			if !match {
				continue
			}
			n++
			vsym.Assert(it.Marker == e.marker, "C13/marker-flag")
			if !e.marker {
				vsym.Assert(it.Size == int64(len(e.body)), "C13/size")
				vsym.Assert(it.ETag == etagOf(e.body), "C13/etag")
			}
			isTop := e.id == top.id && e.marker == top.marker && string(e.body) == string(top.body)
			if e.id != "" || mode == 0 {
				vsym.Assert(it.IsLatest == (e.id == top.id), "C13/latest-is-what-a-read-resolves-to")
			} else {
				vsym.Assert(it.IsLatest == isTop, "C13/latest-is-what-a-read-resolves-to")
			}
		}
		vsym.Assert(n == 1, "C13/version-listed-exactly-once")
	}
}

// VH_C13: ListObjectVersions after version histories over keys j, k.
func VH_C13() {
	h, _ := newMemServer()
	vsym.Assert(Do(h, Req{Method: "PUT", Path: "/bkt"}).Code() == 200, "C13/create-bucket")
	m := &verModel{stack: map[string][]verEntry{}, fuzzy: map[string]bool{}}
	keys := []string{"j", "k"}
	if vsym.Param("startenabled", 1) == 1 {
		vsym.Assert(setVersioning(h, "Enabled").Code() == 200, "C13/enable")
		m.mode = 1
	}
	n := vsym.Param("steps", 3)
	for i := 0; i < n; i++ {
		c05Step(h, m, keys)
	}
	total := len(m.stack["j"]) + len(m.stack["k"])
	if total == 0 {
		vsym.Assume(false)
	}
	paged := vsym.Param("paged", 1) == 1
	maxKeys := total + 1
	if paged {
		maxKeys = 1 + vsym.Choice("maxkeys", total+1)
	}
	var all []VersionEntry
	keyMarker, verMarker := "", ""
	for page := 0; ; page++ {
		vsym.Assert(page <= total+1, "C13/terminates")
		if page > total+1 {
			return
		}
		q := url.Values{"versions": {""}, "max-keys": {itoa(maxKeys)}}
		if keyMarker != "" {
			q.Set("key-marker", keyMarker)
			if verMarker != "" {
				q.Set("version-id-marker", verMarker)
			}
		}
		r := Do(h, Req{Method: "GET", Path: "/bkt", Query: q, Header: http.Header{}})
		vsym.Assert(r.Code() == 200, "C13/status")
		v := r.Versions()
		vsym.Assert(v.OK, "C13/document")
		if !v.OK {
			return
		}
		vsym.Assert(len(v.Items) <= maxKeys, "C13/page-size")
		all = append(all, v.Items...)
		if !v.IsTruncated {
			break
		}
		vsym.Reach("C13/truncated")
		vsym.Assert(v.NextKeyMarker != "", "C13/truncated-has-key-marker")
		vsym.Assert(v.NextVersionIDMarker != "", "C13/truncated-has-version-marker")
		if v.NextKeyMarker == "" {
			return
		}
		keyMarker, verMarker = v.NextKeyMarker, v.NextVersionIDMarker
	}
	// grouped by key in ascending key order
	var js, ks []VersionEntry
	seenK := false
	for _, it := range all {
		if it.Key == "j" {
			vsym.Assert(!seenK, "C13/grouped-by-ascending-key")
			js = append(js, it)
		} else {
			vsym.Assert(it.Key == "k", "C13/unknown-key")
			seenK = true
			ks = append(ks, it)
		}
	}
	checkVersionGroup(js, m.stack["j"], m.mode)
	checkVersionGroup(ks, m.stack["k"], m.mode)
	vsym.Reach("C13/done")
}
