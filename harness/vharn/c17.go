package vharn

import (
	"github.com/johannesboyne/gofakes3/internal/vsym"
)

func labelChar(c byte) bool { return (c >= 'a' && c <= 'z') || (c >= '0' && c <= '9') || c == '-' }
func alnum(c byte) bool     { return (c >= 'a' && c <= 'z') || (c >= '0' && c <= '9') }

// specBucketName: the documented rule of C17 (names short enough that the
// IPv4 exclusion cannot apply: labels need three characters each).
func specBucketName(s string) bool {
	if len(s) < 3 || len(s) > 63 {
		return false
	}
	start := 0
	for i := 0; i <= len(s); i++ {
		if i == len(s) || s[i] == '.' {
			l := s[start:i]
			if len(l) < 3 || !alnum(l[0]) || !alnum(l[len(l)-1]) {
				return false
			}
			start = i + 1
			continue
		}
		if !labelChar(s[i]) {
			return false
		}
	}
	return true
}

// VH_C17c: create-bucket through the HTTP API on the backend tier selected by
// "backend": accepted iff the name satisfies the rule; a refusal creates
// nothing; an accepted name is listed exactly once.
func VH_C17c() {
	kind := backendKind()
	h, b := newServerKind(kind)
	n := 1 + vsym.Choice("len", vsym.Param("maxlen", 4))
	name := vsym.String("name", n)
	for i := 0; i < n; i++ {
		vsym.Assume(name[i] != '/') // a slash changes routing, not validation
	}
	before := bucketNames(b)
	r := Do(h, Req{Method: "PUT", Path: "/" + name})
	after := bucketNames(b)
	want := specBucketName(name)
	if r.Code() == 200 {
		vsym.Reach("C17c/accepted")
		vsym.Assert(want, "C17c/invalid-name-accepted")
		cnt := 0
		for _, x := range after {
			if x == name {
				cnt++
			}
		}
		vsym.Assert(cnt == 1 && len(after) == len(before)+1, "C17c/accepted-name-listed-once")
		return
	}
	vsym.Reach("C17c/refused")
	vsym.Assert(!want, "C17c/valid-name-refused")
	vsym.Assert(r.Code() == 400 && r.ErrCode() == "InvalidBucketName", "C17c/refusal-code")
	vsym.Assert(sameStrings(before, after), "C17c/refusal-creates-nothing")
}
