package vharn

import (
	"net/http"
	"net/url"

	"github.com/johannesboyne/gofakes3"
	"github.com/johannesboyne/gofakes3/internal/vsym"
)

// verEntry is one entry of the model's version stack of a key.
type verEntry struct {
	id      string // version id reported by the server ("" = null version, created while not Enabled)
	body    []byte
	marker  bool
	enabled bool // created while versioning was Enabled
}

type verModel struct {
	mode  int // 0 never versioned, 1 enabled, 2 suspended
	stack map[string][]verEntry
	// suspendedTouched: a put/delete happened on the key while Suspended; the
	// statement does not pin down the unqualified read afterwards
	fuzzy map[string]bool
}

// c05Meta: every upload carries metadata that identifies it.
func c05Meta(body []byte) http.Header {
	return http.Header{"X-Amz-Meta-V": {HexLower(body)}}
}

func setVersioning(h http.Handler, status string) *Recorder {
	rq := BodyReq("PUT", "/bkt", nil, VersioningBody(status))
	rq.Query = url.Values{"versioning": {""}}
	return Do(h, rq)
}

func (m *verModel) top(k string) (verEntry, bool) {
	s := m.stack[k]
	if len(s) == 0 {
		return verEntry{}, false
	}
	return s[len(s)-1], true
}

// c05Observe checks unqualified and by-version reads of key k.
func c05Observe(h http.Handler, m *verModel, k string) {
	r := Do(h, Req{Method: "GET", Path: "/bkt/" + k})
	t, ok := m.top(k)
	if m.fuzzy[k] {
		vsym.Assert(r.Code() == 200 || (r.Code() == 404 && r.ErrCode() == "NoSuchKey"), "C05/unqualified-read-wellformed")
	} else if !ok || t.marker {
		vsym.Assert(r.Code() == 404 && r.ErrCode() == "NoSuchKey", "C05/unqualified-read-absent")
	} else {
		vsym.Assert(r.Code() == 200, "C05/unqualified-read-status")
		vsym.Assert(string(r.Body) == string(t.body), "C05/unqualified-read-newest")
		vsym.Assert(r.Hdr.Get("X-Amz-Meta-V") == HexLower(t.body), "C05/unqualified-read-metadata")
	}
	for _, e := range m.stack[k] {
		if e.id == "" || !e.enabled {
			continue
		}
		q := url.Values{"versionId": {e.id}}
		rg := Do(h, Req{Method: "GET", Path: "/bkt/" + k, Query: q})
		rh := Do(h, Req{Method: "HEAD", Path: "/bkt/" + k, Query: q})
		if e.marker {
			vsym.Assert(rg.Code() == 404 || rg.Code() == 405, "C05/get-marker-version")
			continue
		}
		vsym.Assert(rg.Code() == 200, "C05/get-version-status")
		vsym.Assert(string(rg.Body) == string(e.body), "C05/get-version-bytes")
		sum := vsym.MD5(e.body)
		etag := `"` + HexLower(sum[:]) + `"`
		vsym.Assert(rg.Hdr.Get("ETag") == etag, "C05/get-version-etag")
		vsym.Assert(rh.Code() == 200, "C05/head-version-status")
		vsym.Assert(rh.Hdr.Get("ETag") == etag, "C05/head-version-etag")
		vsym.Assert(rh.Hdr.Get("Content-Length") == itoa(len(e.body)), "C05/head-version-length")
		vsym.Assert(rg.Hdr.Get("X-Amz-Meta-V") == HexLower(e.body) && rh.Hdr.Get("X-Amz-Meta-V") == HexLower(e.body), "C05/version-metadata")
	}
}

func (m *verModel) removeID(k, id string) {
	s := m.stack[k]
	for i, e := range s {
		if e.id == id {
			m.stack[k] = append(append([]verEntry(nil), s[:i]...), s[i+1:]...)
			return
		}
	}
}

func (m *verModel) uniqueID(id string) bool {
	for _, s := range m.stack {
		for _, e := range s {
			if e.id == id {
				return false
			}
		}
	}
	return true
}

func c05Step(h http.Handler, m *verModel, keys []string) {
	op := vsym.Choice("op", 6+vsym.Param("copyop", 0))
	k := keys[vsym.Choice("key", len(keys))]
	switch op {
	case 6: // copy the key onto itself: a new version with the current bytes and metadata
		r := Do(h, Req{Method: "PUT", Path: "/bkt/" + k, Header: http.Header{"X-Amz-Copy-Source": {"/bkt/" + k}}})
		t, ok := m.top(k)
		if m.fuzzy[k] {
			vsym.Assume(false) // the model does not pin the source down here
		}
		if !ok || t.marker {
			vsym.Assert(r.Code() == 404 && r.ErrCode() == "NoSuchKey", "C05/copy-absent-source")
			return
		}
		vsym.Assert(r.Code() == 200, "C05/copy-status")
		id := r.Hdr.Get("x-amz-version-id")
		if m.mode == 1 {
			// the id the copy reports is the id of the version it created
			vsym.Assert(id != "" && m.uniqueID(id), "C05/copy-version-id-fresh")
			m.stack[k] = append(m.stack[k], verEntry{id: id, body: t.body, enabled: true})
		} else {
			vsym.Assert(id == "", "C05/copy-unversioned-has-no-version-id")
			m.removeID(k, "")
			m.stack[k] = append(m.stack[k], verEntry{body: t.body})
		}
	case 0: // put
		body := vsym.Bytes("body", 1)
		r := Do(h, BodyReq("PUT", "/bkt/"+k, c05Meta(body), body))
		vsym.Assert(r.Code() == 200, "C05/put-status")
		id := r.Hdr.Get("x-amz-version-id")
		if m.mode == 1 {
			vsym.Assert(id != "", "C05/put-enabled-has-version-id")
			vsym.Assert(m.uniqueID(id), "C05/version-id-fresh")
			m.stack[k] = append(m.stack[k], verEntry{id: id, body: body, enabled: true})
			m.fuzzy[k] = false
		} else {
			vsym.Assert(id == "", "C05/put-unversioned-has-no-version-id")
			// replaces the null version, keeps Enabled-era versions
			m.removeID(k, "")
			m.stack[k] = append(m.stack[k], verEntry{body: body})
			if m.mode == 2 {
				m.fuzzy[k] = false // a suspended put makes the new object current
			}
		}
	case 1: // plain delete
		r := Do(h, Req{Method: "DELETE", Path: "/bkt/" + k})
		vsym.Assert(r.Code() == 204, "C05/delete-status")
		switch m.mode {
		case 1:
			if len(m.stack[k]) > 0 {
				id := r.Hdr.Get("x-amz-version-id")
				vsym.Assert(id != "" && m.uniqueID(id), "C05/delete-marker-id-fresh")
				vsym.Assert(r.Hdr.Get("x-amz-delete-marker") == "true", "C05/delete-adds-marker")
				m.stack[k] = append(m.stack[k], verEntry{id: id, marker: true, enabled: true})
			}
		case 0:
			m.stack[k] = nil
		default:
			// Suspended: the null version goes away; if versions created while
			// Enabled remain, a null delete marker hides them
			m.removeID(k, "")
			if len(m.stack[k]) > 0 {
				vsym.Assert(r.Hdr.Get("x-amz-delete-marker") == "true", "C05/suspended-delete-adds-marker")
				m.stack[k] = append(m.stack[k], verEntry{marker: true})
			}
		}
	case 2, 3: // delete a specific version (directly, or through multi-delete)
		var ids []string
		for _, e := range m.stack[k] {
			if e.id != "" {
				ids = append(ids, e.id)
			}
		}
		if len(ids) == 0 {
			vsym.Assume(false)
		}
		id := ids[vsym.Choice("ver", len(ids))]
		if op == 2 {
			r := Do(h, Req{Method: "DELETE", Path: "/bkt/" + k, Query: url.Values{"versionId": {id}}})
			vsym.Assert(r.Code() == 204, "C05/delete-version-status")
		} else {
			rq := BodyReq("POST", "/bkt", nil, DeleteBody([]gofakes3.ObjectID{{Key: k, VersionID: id}}, false))
			rq.Query = url.Values{"delete": {""}}
			r := Do(h, rq)
			vsym.Assert(r.Code() == 200, "C05/multi-delete-version-status")
		}
		m.removeID(k, id)
	case 4:
		vsym.Assert(setVersioning(h, "Enabled").Code() == 200, "C05/enable-status")
		m.mode = 1
	default:
		if m.mode == 0 {
			vsym.Assume(false) // suspending a never-versioned bucket is a no-op
		}
		vsym.Assert(setVersioning(h, "Suspended").Code() == 200, "C05/suspend-status")
		m.mode = 2
	}
}

// VH_C05: version histories on the memory backend.
func VH_C05() {
	h, _ := newMemServer()
	vsym.Assert(Do(h, Req{Method: "PUT", Path: "/bkt"}).Code() == 200, "C05/create-bucket")
	m := &verModel{stack: map[string][]verEntry{}, fuzzy: map[string]bool{}}
	keys := []string{"k"}
	if vsym.Param("keys", 1) > 1 {
		keys = append(keys, "j")
	}
	if vsym.Param("startenabled", 1) == 1 {
		vsym.Assert(setVersioning(h, "Enabled").Code() == 200, "C05/enable-status")
		m.mode = 1
	}
	// optional fixed prefix of the history: that many puts of key k
	for i := 0; i < vsym.Param("preputs", 0); i++ {
		body := []byte{byte('a' + i)}
		r := Do(h, BodyReq("PUT", "/bkt/k", c05Meta(body), body))
		vsym.Assert(r.Code() == 200, "C05/put-status")
		if m.mode == 1 {
			m.stack["k"] = append(m.stack["k"], verEntry{id: r.Hdr.Get("x-amz-version-id"), body: body, enabled: true})
		} else {
			m.removeID("k", "")
			m.stack["k"] = append(m.stack["k"], verEntry{body: body})
		}
	}
	n := vsym.Param("steps", 3)
	for i := 0; i < n; i++ {
		c05Step(h, m, keys)
		for _, k := range keys {
			c05Observe(h, m, k)
		}
	}
	vsym.Reach("C05/done")
}
