//go:build vsymbolic

package vharn

import (
	"mime/multipart"
	"net/http"
	"net/url"

	"github.com/johannesboyne/gofakes3"
	"github.com/johannesboyne/gofakes3/internal/vstub"
)

func setQuery(u *url.URL, q url.Values) {
	if q == nil {
		return
	}
	vstub.RegisterQuery(u, q)
}

// ErrCode returns the S3 error code of an error response ("" if the response
// carries no error document).
func (r *Recorder) ErrCode() string {
	for _, v := range r.XML {
		if e, ok := v.(gofakes3.Error); ok {
			return string(e.ErrorCode())
		}
	}
	return ""
}

// HasErrDoc reports whether an S3 error document was encoded.
func (r *Recorder) HasErrDoc() bool {
	for _, v := range r.XML {
		if _, ok := v.(gofakes3.Error); ok {
			return true
		}
	}
	return false
}

// ---- typed views of XML responses (symbolic flavour: taken from the values
// handed to the XML encoder) ----

func (r *Recorder) lastXML() interface{} {
	if len(r.XML) == 0 {
		return nil
	}
	return r.XML[len(r.XML)-1]
}

func (r *Recorder) BucketNames() []string {
	if s, ok := r.lastXML().(*gofakes3.Storage); ok {
		// in document order (Buckets.Names would sort them)
		var out []string
		for _, b := range s.Buckets {
			out = append(out, b.Name)
		}
		return out
	}
	return nil
}

func viewBase(b *gofakes3.ListBucketResultBase, v *ListView) {
	v.OK = true
	v.IsTruncated = b.IsTruncated
	v.Prefix, v.Delimiter, v.MaxKeys = b.Prefix, b.Delimiter, b.MaxKeys
	for _, c := range b.Contents {
		v.Keys = append(v.Keys, c.Key)
		v.Sizes = append(v.Sizes, c.Size)
		v.ETags = append(v.ETags, c.ETag)
	}
	for _, p := range b.CommonPrefixes {
		v.Prefixes = append(v.Prefixes, p.Prefix)
	}
}

func (r *Recorder) List() (v ListView) {
	switch x := r.lastXML().(type) {
	case *gofakes3.ListBucketResult:
		viewBase(&x.ListBucketResultBase, &v)
		v.NextMarker = x.NextMarker
	case *gofakes3.ListBucketResultV2:
		viewBase(&x.ListBucketResultBase, &v)
		v.V2 = true
		v.NextToken = x.NextContinuationToken
		v.KeyCount = x.KeyCount
	}
	return v
}

func (r *Recorder) Deleted() (keys []string, nerr int, ok bool) {
	if d, isD := r.lastXML().(gofakes3.MultiDeleteResult); isD {
		for _, o := range d.Deleted {
			keys = append(keys, o.Key)
		}
		return keys, len(d.Error), true
	}
	return nil, 0, false
}

func (r *Recorder) UploadID() string {
	if x, ok := r.lastXML().(gofakes3.InitiateMultipartUploadResult); ok {
		return string(x.UploadID)
	}
	return ""
}

func (r *Recorder) CompleteETag() string {
	if x, ok := r.lastXML().(*gofakes3.CompleteMultipartUploadResult); ok {
		return x.ETag
	}
	return ""
}

func (r *Recorder) Versions() (v VersionsView) {
	x, ok := r.lastXML().(*gofakes3.ListBucketVersionsResult)
	if !ok {
		return v
	}
	v.OK = true
	v.IsTruncated = x.IsTruncated
	v.NextKeyMarker, v.NextVersionIDMarker = x.NextKeyMarker, string(x.NextVersionIDMarker)
	for _, p := range x.CommonPrefixes {
		v.Prefixes = append(v.Prefixes, p.Prefix)
	}
	for _, it := range x.Versions {
		switch e := it.(type) {
		case *gofakes3.Version:
			v.Items = append(v.Items, VersionEntry{Key: e.Key, VersionID: string(e.VersionID), IsLatest: e.IsLatest, Size: e.Size, ETag: e.ETag})
		case *gofakes3.DeleteMarker:
			v.Items = append(v.Items, VersionEntry{Key: e.Key, VersionID: string(e.VersionID), IsLatest: e.IsLatest, Marker: true})
		}
	}
	return v
}

func (r *Recorder) Uploads() (v UploadsView) {
	x, ok := r.lastXML().(*gofakes3.ListMultipartUploadsResult)
	if !ok {
		return v
	}
	v.OK = true
	v.IsTruncated = x.IsTruncated
	v.NextKeyMarker, v.NextUploadIDMarker = x.NextKeyMarker, string(x.NextUploadIDMarker)
	for _, p := range x.CommonPrefixes {
		v.Prefixes = append(v.Prefixes, p.Prefix)
	}
	for _, u := range x.Uploads {
		v.Keys = append(v.Keys, u.Key)
		v.IDs = append(v.IDs, string(u.UploadID))
	}
	return v
}

func (r *Recorder) Parts() (v PartsView) {
	x, ok := r.lastXML().(*gofakes3.ListMultipartUploadPartsResult)
	if !ok {
		return v
	}
	v.OK = true
	v.IsTruncated = x.IsTruncated
	v.NextMarker = x.NextPartNumberMarker
	for _, p := range x.Parts {
		v.Numbers = append(v.Numbers, p.PartNumber)
		v.Sizes = append(v.Sizes, p.Size)
		v.ETags = append(v.ETags, p.ETag)
	}
	return v
}

// ---- request bodies ----

func DeleteBody(objs []gofakes3.ObjectID, quiet bool) []byte {
	return vstub.RegisterXMLBody(&vstub.XMLBody{Value: &gofakes3.DeleteRequest{Objects: objs, Quiet: quiet}})
}

func CompleteBody(parts []gofakes3.CompletedPart) []byte {
	return vstub.RegisterXMLBody(&vstub.XMLBody{Value: &gofakes3.CompleteMultipartUploadRequest{Parts: parts}})
}

func VersioningBody(status string) []byte {
	return vstub.RegisterXMLBody(&vstub.XMLBody{Value: &vstub.VersioningBody{HasStatus: true, Status: status}})
}

func MalformedXMLBody() []byte {
	return vstub.RegisterXMLBody(&vstub.XMLBody{Malformed: true})
}

// FormReq builds a browser-form POST (symbolic flavour: the parsed form is
// attached directly; mime/multipart parsing is outside the claims).
func FormReq(path string, fields map[string]string, fileContent []byte) Req {
	fh := &multipart.FileHeader{Filename: "upload.bin", Size: int64(len(fileContent))}
	vstub.RegisterFormFile(fh, fileContent)
	form := &multipart.Form{Value: map[string][]string{}, File: map[string][]*multipart.FileHeader{"file": {fh}}}
	for k, v := range fields {
		form.Value[k] = []string{v}
	}
	return Req{Method: "POST", Path: path, Header: http.Header{}, Form: form}
}
