//go:build vsymbolic

package vharn

import (
	"net/url"

	"github.com/johannesboyne/gofakes3"
	"github.com/johannesboyne/gofakes3/internal/vstub"
)

func setQuery(u *url.URL, q url.Values) {
	if q == nil {
		return
	}
	vstub.RegisterQuery(u, q)
}

// ErrCode returns the S3 error code of an error response ("" if the response
// carries no error document).
func (r *Recorder) ErrCode() string {
	for _, v := range r.XML {
		if e, ok := v.(gofakes3.Error); ok {
			return string(e.ErrorCode())
		}
	}
	return ""
}

// HasErrDoc reports whether an S3 error document was encoded.
func (r *Recorder) HasErrDoc() bool {
	for _, v := range r.XML {
		if _, ok := v.(gofakes3.Error); ok {
			return true
		}
	}
	return false
}
