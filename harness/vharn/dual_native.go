//go:build !vsymbolic

package vharn

import (
	"bytes"
	"encoding/xml"
	"mime/multipart"
	"net/http"
	"net/url"

	"github.com/johannesboyne/gofakes3"
)

func setQuery(u *url.URL, q url.Values) {
	if q == nil {
		return
	}
	u.RawQuery = q.Encode()
}

type errDoc struct {
	XMLName xml.Name `xml:"Error"`
	Code    string   `xml:"Code"`
}

func (r *Recorder) ErrCode() string {
	var d errDoc
	if !bytes.Contains(r.Body, []byte("<Error>")) {
		return ""
	}
	if err := xml.Unmarshal(r.Body, &d); err != nil {
		return ""
	}
	return d.Code
}

func (r *Recorder) HasErrDoc() bool { return bytes.Contains(r.Body, []byte("<Error>")) }

func (r *Recorder) BucketNames() []string {
	var d struct {
		Buckets []struct {
			Name string `xml:"Name"`
		} `xml:"Buckets>Bucket"`
	}
	if xml.Unmarshal(r.Body, &d) != nil {
		return nil
	}
	var out []string
	for _, b := range d.Buckets {
		out = append(out, b.Name)
	}
	return out
}

func (r *Recorder) List() (v ListView) {
	var d struct {
		XMLName     xml.Name
		IsTruncated bool   `xml:"IsTruncated"`
		Prefix      string `xml:"Prefix"`
		Delimiter   string `xml:"Delimiter"`
		MaxKeys     int64  `xml:"MaxKeys"`
		NextMarker  string `xml:"NextMarker"`
		NextToken   string `xml:"NextContinuationToken"`
		KeyCount    int64  `xml:"KeyCount"`
		HasKeyCount *int64 `xml:"KeyCount"`
		Contents    []struct {
			Key  string `xml:"Key"`
			Size int64  `xml:"Size"`
			ETag string `xml:"ETag"`
		} `xml:"Contents"`
		CommonPrefixes []struct {
			Prefix string `xml:"Prefix"`
		} `xml:"CommonPrefixes"`
	}
	d2 := struct {
		XMLName     xml.Name
		IsTruncated bool   `xml:"IsTruncated"`
		Prefix      string `xml:"Prefix"`
		Delimiter   string `xml:"Delimiter"`
		MaxKeys     int64  `xml:"MaxKeys"`
		NextMarker  string `xml:"NextMarker"`
		NextToken   string `xml:"NextContinuationToken"`
		KeyCount    *int64 `xml:"KeyCount"`
		Contents    []struct {
			Key  string `xml:"Key"`
			Size int64  `xml:"Size"`
			ETag string `xml:"ETag"`
		} `xml:"Contents"`
		CommonPrefixes []struct {
			Prefix string `xml:"Prefix"`
		} `xml:"CommonPrefixes"`
	}{}
	_ = d
	if xml.Unmarshal(r.Body, &d2) != nil || d2.XMLName.Local != "ListBucketResult" {
		return v
	}
	v.OK = true
	v.IsTruncated, v.Prefix, v.Delimiter, v.MaxKeys = d2.IsTruncated, d2.Prefix, d2.Delimiter, d2.MaxKeys
	v.NextMarker, v.NextToken = d2.NextMarker, d2.NextToken
	if d2.KeyCount != nil {
		v.V2 = true
		v.KeyCount = *d2.KeyCount
	}
	for _, c := range d2.Contents {
		v.Keys = append(v.Keys, c.Key)
		v.Sizes = append(v.Sizes, c.Size)
		v.ETags = append(v.ETags, c.ETag)
	}
	for _, p := range d2.CommonPrefixes {
		v.Prefixes = append(v.Prefixes, p.Prefix)
	}
	return v
}

func (r *Recorder) Deleted() (keys []string, nerr int, ok bool) {
	var d struct {
		XMLName xml.Name `xml:"DeleteResult"`
		Deleted []struct {
			Key string `xml:"Key"`
		} `xml:"Deleted"`
		Error []struct {
			Key string `xml:"Key"`
		} `xml:"Error"`
	}
	if xml.Unmarshal(r.Body, &d) != nil {
		return nil, 0, false
	}
	for _, o := range d.Deleted {
		keys = append(keys, o.Key)
	}
	return keys, len(d.Error), true
}

func (r *Recorder) UploadID() string {
	var d struct {
		UploadID string `xml:"UploadId"`
	}
	xml.Unmarshal(r.Body, &d)
	return d.UploadID
}

func (r *Recorder) CompleteETag() string {
	var d struct {
		XMLName xml.Name `xml:"CompleteMultipartUploadResult"`
		ETag    string   `xml:"ETag"`
	}
	if xml.Unmarshal(r.Body, &d) != nil {
		return ""
	}
	return d.ETag
}

func (r *Recorder) Versions() (v VersionsView) {
	dec := xml.NewDecoder(bytes.NewReader(r.Body))
	type ent struct {
		Key       string `xml:"Key"`
		VersionID string `xml:"VersionId"`
		IsLatest  bool   `xml:"IsLatest"`
		Size      int64  `xml:"Size"`
		ETag      string `xml:"ETag"`
	}
	depth := 0
	for {
		tok, err := dec.Token()
		if err != nil {
			break
		}
		switch t := tok.(type) {
		case xml.StartElement:
			depth++
			if depth == 1 {
				if t.Name.Local != "ListBucketVersionsResult" {
					return VersionsView{}
				}
				v.OK = true
				continue
			}
			if depth != 2 {
				continue
			}
			switch t.Name.Local {
			case "Version", "DeleteMarker":
				var e ent
				if dec.DecodeElement(&e, &t) == nil {
					v.Items = append(v.Items, VersionEntry{Key: e.Key, VersionID: e.VersionID, IsLatest: e.IsLatest, Size: e.Size, ETag: e.ETag, Marker: t.Name.Local == "DeleteMarker"})
				}
				depth--
			case "IsTruncated":
				var b bool
				dec.DecodeElement(&b, &t)
				v.IsTruncated = b
				depth--
			case "NextKeyMarker":
				dec.DecodeElement(&v.NextKeyMarker, &t)
				depth--
			case "NextVersionIdMarker":
				dec.DecodeElement(&v.NextVersionIDMarker, &t)
				depth--
			case "CommonPrefixes":
				var p struct {
					Prefix string `xml:"Prefix"`
				}
				dec.DecodeElement(&p, &t)
				v.Prefixes = append(v.Prefixes, p.Prefix)
				depth--
			}
		case xml.EndElement:
			depth--
		}
	}
	return v
}

func (r *Recorder) Uploads() (v UploadsView) {
	var d struct {
		XMLName            xml.Name `xml:"ListMultipartUploadsResult"`
		IsTruncated        bool     `xml:"IsTruncated"`
		NextKeyMarker      string   `xml:"NextKeyMarker"`
		NextUploadIDMarker string   `xml:"NextUploadIdMarker"`
		Upload             []struct {
			Key      string `xml:"Key"`
			UploadID string `xml:"UploadId"`
		} `xml:"Upload"`
		CommonPrefixes []struct {
			Prefix string `xml:"Prefix"`
		} `xml:"CommonPrefixes"`
	}
	if xml.Unmarshal(r.Body, &d) != nil {
		return v
	}
	v.OK = true
	v.IsTruncated, v.NextKeyMarker, v.NextUploadIDMarker = d.IsTruncated, d.NextKeyMarker, d.NextUploadIDMarker
	for _, u := range d.Upload {
		v.Keys = append(v.Keys, u.Key)
		v.IDs = append(v.IDs, u.UploadID)
	}
	for _, p := range d.CommonPrefixes {
		v.Prefixes = append(v.Prefixes, p.Prefix)
	}
	return v
}

func (r *Recorder) Parts() (v PartsView) {
	var d struct {
		XMLName     xml.Name `xml:"ListPartsResult"`
		IsTruncated bool     `xml:"IsTruncated"`
		NextMarker  int      `xml:"NextPartNumberMarker"`
		Part        []struct {
			PartNumber int    `xml:"PartNumber"`
			Size       int64  `xml:"Size"`
			ETag       string `xml:"ETag"`
		} `xml:"Part"`
	}
	if xml.Unmarshal(r.Body, &d) != nil {
		return v
	}
	v.OK = true
	v.IsTruncated, v.NextMarker = d.IsTruncated, d.NextMarker
	for _, p := range d.Part {
		v.Numbers = append(v.Numbers, p.PartNumber)
		v.Sizes = append(v.Sizes, p.Size)
		v.ETags = append(v.ETags, p.ETag)
	}
	return v
}

type xmlObjectID struct {
	Key       string `xml:"Key"`
	VersionID string `xml:"VersionId,omitempty"`
}

func DeleteBody(objs []gofakes3.ObjectID, quiet bool) []byte {
	d := struct {
		XMLName xml.Name      `xml:"Delete"`
		Objects []xmlObjectID `xml:"Object"`
		Quiet   bool          `xml:"Quiet,omitempty"`
	}{Quiet: quiet}
	for _, o := range objs {
		d.Objects = append(d.Objects, xmlObjectID{o.Key, o.VersionID})
	}
	b, err := xml.Marshal(d)
	if err != nil {
		panic(err)
	}
	return b
}

func CompleteBody(parts []gofakes3.CompletedPart) []byte {
	d := struct {
		XMLName xml.Name                 `xml:"CompleteMultipartUpload"`
		Parts   []gofakes3.CompletedPart `xml:"Part"`
	}{Parts: parts}
	b, err := xml.Marshal(d)
	if err != nil {
		panic(err)
	}
	return b
}

func VersioningBody(status string) []byte {
	d := struct {
		XMLName xml.Name `xml:"VersioningConfiguration"`
		Status  string   `xml:"Status"`
	}{Status: status}
	b, err := xml.Marshal(d)
	if err != nil {
		panic(err)
	}
	return b
}

func MalformedXMLBody() []byte { return []byte("<Unclosed><a>") }

// FormReq builds a browser-form POST with a real multipart/form-data body.
func FormReq(path string, fields map[string]string, fileContent []byte) Req {
	var buf bytes.Buffer
	w := multipart.NewWriter(&buf)
	for k, v := range fields {
		w.WriteField(k, v)
	}
	fw, err := w.CreateFormFile("file", "upload.bin")
	if err != nil {
		panic(err)
	}
	fw.Write(fileContent)
	w.Close()
	hdr := http.Header{"Content-Type": {w.FormDataContentType()}}
	return Req{Method: "POST", Path: path, Header: hdr, Body: bytes.NewReader(buf.Bytes()), Length: int64(buf.Len())}
}
