//go:build !vsymbolic

package vharn

import (
	"bytes"
	"encoding/xml"
	"net/url"
)

func setQuery(u *url.URL, q url.Values) {
	if q == nil {
		return
	}
	u.RawQuery = q.Encode()
}

type errDoc struct {
	XMLName xml.Name `xml:"Error"`
	Code    string   `xml:"Code"`
}

func (r *Recorder) ErrCode() string {
	var d errDoc
	if !bytes.Contains(r.Body, []byte("<Error>")) {
		return ""
	}
	if err := xml.Unmarshal(r.Body, &d); err != nil {
		return ""
	}
	return d.Code
}

func (r *Recorder) HasErrDoc() bool { return bytes.Contains(r.Body, []byte("<Error>")) }
