package vharn

import (
	"bytes"
	"os"
	"time"

	"github.com/johannesboyne/gofakes3"
	"github.com/johannesboyne/gofakes3/backend/s3afero"
	"github.com/johannesboyne/gofakes3/internal/vsym"
	"github.com/spf13/afero"
)

type storeSnap struct {
	buckets []string
	entries []string // "bucket/key=body|size|hash|meta" in listing order
}

func snapStore(b gofakes3.Backend, buckets []string, keys []string) storeSnap {
	var s storeSnap
	s.buckets = bucketNames(b)
	for _, bk := range buckets {
		ks, ok := listKeys(b, bk)
		if !ok {
			s.entries = append(s.entries, bk+":<unlistable>")
			continue
		}
		for _, k := range ks {
			o, err := b.GetObject(bk, k, nil)
			if err != nil || o == nil {
				s.entries = append(s.entries, bk+"/"+k+":<unreadable>")
				continue
			}
			body := readObj(b, bk, k)
			s.entries = append(s.entries, bk+"/"+k+"="+body.body+"|"+itoa(int(o.Size))+"|"+string(o.Hash)+"|"+o.Metadata["X-Amz-Meta-A"]+"|"+o.Metadata["Content-Type"])
			o.Contents.Close()
		}
	}
	return s
}

func sameSnapStore(tag string, a, b storeSnap) {
	vsym.Assert(sameStrings(a.buckets, b.buckets), tag+"/buckets")
	vsym.Assert(sameStrings(a.entries, b.entries), tag+"/objects")
}

func openFs(kind int, fs, metaFs afero.Fs) gofakes3.Backend {
	if kind == kindFsSingle {
		b, err := s3afero.SingleBucket("bkt", fs, metaFs)
		if err != nil {
			vsym.Fail("C15/open-failed")
			panic(err)
		}
		return b
	}
	b, err := s3afero.MultiBucket(fs)
	if err != nil {
		vsym.Fail("C15/open-failed")
		panic(err)
	}
	return b
}

// c15History performs a free history of puts, overwrites and deletes through
// the Backend API and returns the buckets used.
// c15Keys: "d/y" and "d_y" differ only in a character that the fs backends
// replace when they name a key's metadata record.
var c15Keys = []string{"x", "d/y", "d_y"}

// c15Acked is what the last acknowledged write left under a key.
type c15Acked struct {
	present    bool
	body, meta string
}

func c15History(b gofakes3.Backend, kind int, steps int) ([]string, map[string]c15Acked) {
	acked := map[string]c15Acked{}
	buckets := []string{"aaa"}
	if kind == kindFsSingle {
		buckets = []string{"bkt"}
	} else {
		if err := b.CreateBucket("aaa"); err != nil {
			vsym.Fail("C15/create-bucket")
		}
	}
	keys := c15Keys
	for i := 0; i < steps; i++ {
		k := keys[vsym.Choice("key", len(keys))]
		switch vsym.Choice("op", 3) {
		case 0, 1: // put / overwrite with metadata
			body := vsym.Bytes("body", 1+vsym.Choice("blen", 2))
			meta := map[string]string{"X-Amz-Meta-A": vsym.String("meta", 1), "Content-Type": "t/" + k}
			if _, err := b.PutObject(buckets[0], k, meta, bytes.NewReader(body), int64(len(body))); err != nil {
				vsym.Fail("C15/put-failed")
			}
			acked[k] = c15Acked{true, string(body), meta["X-Amz-Meta-A"]}
		default:
			if _, err := b.DeleteObject(buckets[0], k); err != nil {
				vsym.Fail("C15/delete-failed")
			}
			acked[k] = c15Acked{}
		}
	}
	return buckets, acked
}

// VH_C15a: clean reopen of the fs backends on the same storage.
func VH_C15a() {
	kind := vsym.Param("backend", kindFsMulti)
	fs, metaFs := afero.NewMemMapFs(), afero.NewMemMapFs()
	b1 := openFs(kind, fs, metaFs)
	buckets, acked := c15History(b1, kind, vsym.Param("steps", 2))
	keys := c15Keys
	before := snapStore(b1, buckets, keys)
	b2 := openFs(kind, fs, metaFs) // a new server on the same storage
	after := snapStore(b2, buckets, keys)
	sameSnapStore("C15a", before, after)
	// every key holds what its last acknowledged write left there
	for _, k := range keys {
		want := acked[k]
		got := readObj(b2, buckets[0], k)
		vsym.Assert(got.ok == want.present, "C15a/acknowledged-presence-after-reopen")
		if want.present && got.ok {
			vsym.Assert(got.body == want.body, "C15a/acknowledged-bytes-after-reopen")
			vsym.Assert(got.meta == want.meta, "C15a/acknowledged-metadata-after-reopen")
		}
	}
	// and it keeps working
	if _, err := b2.PutObject(buckets[0], "x", map[string]string{}, bytes.NewReader([]byte("z")), 1); err != nil {
		vsym.Fail("C15a/put-after-reopen")
	}
	vsym.Assert(readObj(b2, buckets[0], "x").body == "z", "C15a/read-after-reopen")
	vsym.Reach("C15a/done")
}

// ---- crash points at afero-call granularity ----

type crashSignal struct{}

// crashFs counts mutating afero calls and "kills the process" (panics with
// crashSignal) immediately after the call that exhausts the budget. Every
// afero call is assumed atomic and durable.
type crashFs struct {
	afero.Fs
	left *int
}

func (c crashFs) tick() {
	if *c.left < 0 {
		return
	}
	if *c.left == 0 {
		*c.left = -2
		panic(crashSignal{})
	}
	*c.left--
}

func (c crashFs) wrap(f afero.File, err error) (afero.File, error) {
	if err != nil || f == nil {
		return f, err
	}
	return crashFile{f, c}, nil
}

func (c crashFs) Create(name string) (afero.File, error) {
	f, err := c.Fs.Create(name)
	c.tick()
	return c.wrap(f, err)
}
func (c crashFs) Mkdir(name string, perm os.FileMode) error {
	err := c.Fs.Mkdir(name, perm)
	c.tick()
	return err
}
func (c crashFs) MkdirAll(path string, perm os.FileMode) error {
	err := c.Fs.MkdirAll(path, perm)
	c.tick()
	return err
}
func (c crashFs) Open(name string) (afero.File, error) { return c.wrap(c.Fs.Open(name)) }
func (c crashFs) OpenFile(name string, flag int, perm os.FileMode) (afero.File, error) {
	f, err := c.Fs.OpenFile(name, flag, perm)
	if flag&(os.O_CREATE|os.O_TRUNC) != 0 {
		c.tick()
	}
	return c.wrap(f, err)
}
func (c crashFs) Remove(name string) error {
	err := c.Fs.Remove(name)
	c.tick()
	return err
}
func (c crashFs) RemoveAll(path string) error {
	err := c.Fs.RemoveAll(path)
	c.tick()
	return err
}
func (c crashFs) Rename(o, n string) error {
	err := c.Fs.Rename(o, n)
	c.tick()
	return err
}
func (c crashFs) Chtimes(name string, a, m time.Time) error {
	err := c.Fs.Chtimes(name, a, m)
	c.tick()
	return err
}

type crashFile struct {
	afero.File
	c crashFs
}

func (f crashFile) Write(p []byte) (int, error) {
	n, err := f.File.Write(p)
	f.c.tick()
	return n, err
}
func (f crashFile) WriteString(s string) (int, error) {
	n, err := f.File.WriteString(s)
	f.c.tick()
	return n, err
}
func (f crashFile) WriteAt(p []byte, off int64) (int, error) {
	n, err := f.File.WriteAt(p, off)
	f.c.tick()
	return n, err
}
func (f crashFile) Truncate(size int64) error {
	err := f.File.Truncate(size)
	f.c.tick()
	return err
}

// VH_C15b: a crash at every afero-call boundary of an in-flight put,
// overwrite or delete; after reopening, acknowledged objects are intact, the
// in-flight write is wholly present or wholly absent, and the store lists.
func VH_C15b() {
	kind := vsym.Param("backend", kindFsMulti)
	fs, metaFs := afero.NewMemMapFs(), afero.NewMemMapFs()
	b0 := openFs(kind, fs, metaFs)
	bucket := "aaa"
	if kind == kindFsSingle {
		bucket = "bkt"
	} else if err := b0.CreateBucket(bucket); err != nil {
		vsym.Fail("C15b/setup")
	}
	oldMeta := map[string]string{"X-Amz-Meta-A": "o", "Content-Type": "t/old"}
	if _, err := b0.PutObject(bucket, "x", oldMeta, bytes.NewReader([]byte("old")), 3); err != nil {
		vsym.Fail("C15b/setup")
	}
	if _, err := b0.PutObject(bucket, "keep", map[string]string{"X-Amz-Meta-A": "k"}, bytes.NewReader([]byte("kept")), 4); err != nil {
		vsym.Fail("C15b/setup")
	}

	left := vsym.Choice("crashafter", vsym.Param("maxcrash", 12)+1)
	budget := left
	cfs, cmeta := crashFs{fs, &budget}, crashFs{metaFs, &budget}
	op := vsym.Choice("op", 3)
	newBody := vsym.Bytes("body", 2+vsym.Choice("samesize", 2)) // 3 bytes: the same size as the object being overwritten
	crashed := false
	func() {
		defer func() {
			if r := recover(); r != nil {
				if _, ok := r.(crashSignal); ok {
					crashed = true
					return
				}
				panic(r)
			}
		}()
		b1 := openFs(kind, cfs, cmeta) // the server may also die while starting up
		switch op {
		case 0: // overwrite x
			b1.PutObject(bucket, "x", map[string]string{"X-Amz-Meta-A": "n", "Content-Type": "t/new"}, bytes.NewReader(newBody), int64(len(newBody)))
		case 1: // new nested key
			b1.PutObject(bucket, "d/y", map[string]string{"X-Amz-Meta-A": "n"}, bytes.NewReader(newBody), int64(len(newBody)))
		default: // delete x
			b1.DeleteObject(bucket, "x")
		}
	}()
	if crashed {
		vsym.Reach("C15b/crashed")
	} else {
		vsym.Reach("C15b/completed")
	}

	// restart on the same storage
	b2 := openFs(kind, fs, metaFs)
	ks, ok := listKeys(b2, bucket)
	vsym.Assert(ok, "C15b/store-lists-after-restart")
	// the untouched, acknowledged object is intact
	kept, kerr := b2.GetObject(bucket, "keep", nil)
	vsym.Assert(kerr == nil && kept != nil, "C15b/acknowledged-object-readable")
	if kerr == nil && kept != nil {
		kept.Contents.Close()
		vsym.Assert(readObj(b2, bucket, "keep").body == "kept" && kept.Metadata["X-Amz-Meta-A"] == "k", "C15b/acknowledged-object-intact")
	}
	oldSum := vsym.MD5([]byte("old"))
	newSum := vsym.MD5(newBody)
	checkWhole := func(tag, key string, allowOld, allowNew, allowAbsent bool) {
		o, err := b2.GetObject(bucket, key, nil)
		if err != nil || o == nil {
			vsym.Assert(allowAbsent && gofakes3.HasErrorCode(err, gofakes3.ErrNoSuchKey), tag+"/unreadable-after-restart")
			return
		}
		o.Contents.Close()
		body := readObj(b2, bucket, key).body
		isOld := body == "old" && string(o.Hash) == string(oldSum[:]) && o.Size == 3
		isNew := body == string(newBody) && string(o.Hash) == string(newSum[:]) && int(o.Size) == len(newBody)
		vsym.Assert((allowOld && isOld) || (allowNew && isNew), tag+"/torn-object-after-restart")
		// ... and its metadata belongs to the same write as its bytes
		metaOld := o.Metadata["X-Amz-Meta-A"] == "o" && o.Metadata["Content-Type"] == "t/old"
		metaNew := o.Metadata["X-Amz-Meta-A"] == "n" && (key != "x" || o.Metadata["Content-Type"] == "t/new")
		// recorded finding: the object file is renamed into place before its
		// metadata record is written, so a kill in between shows the new bytes
		// without the new write's metadata
		vsym.KnownRegion("KF-C15-fs-put-metadata-not-atomic", vsym.And(crashed, vsym.And(isNew, !metaNew)))
		vsym.Assert((allowOld && isOld && metaOld) || (allowNew && isNew && metaNew), tag+"/torn-metadata-after-restart")
		listed := false
		for _, k := range ks {
			if k == key {
				listed = true
			}
		}
		vsym.Assert(listed, tag+"/readable-but-unlisted")
	}
	switch op {
	case 0:
		checkWhole("C15b/overwrite", "x", crashed, true, false)
	case 1:
		checkWhole("C15b/new-key", "d/y", false, true, crashed)
		checkWhole("C15b/bystander", "x", true, false, false)
	default:
		checkWhole("C15b/delete", "x", crashed, false, true)
	}
	for _, k := range ks {
		vsym.Assert(k == "x" || k == "keep" || k == "d/y", "C15b/leftover-listed-as-object")
	}
}
