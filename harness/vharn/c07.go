package vharn

import (
	"bytes"
	"io"
	"net/http"
	"net/url"
	"time"

	"github.com/johannesboyne/gofakes3"
	"github.com/johannesboyne/gofakes3/backend/s3mem"
	"github.com/johannesboyne/gofakes3/internal/vsym"
)

// c07State: bucket "bkt" (versioning on request) with key "k" = "0".
func c07State(versioned bool) *s3mem.Backend {
	// the same seed everywhere: version ids of the sequential reference runs
	// and of the concurrent run are then comparable
	b := s3mem.New(s3mem.WithVersionSeed(7))
	if err := b.CreateBucket("bkt"); err != nil {
		panic(err)
	}
	if versioned {
		if err := b.SetVersioningConfiguration("bkt", gofakes3.VersioningConfiguration{Status: gofakes3.VersioningEnabled}); err != nil {
			panic(err)
		}
	}
	if _, err := b.PutObject("bkt", "k", map[string]string{}, bytes.NewReader([]byte("0")), 1); err != nil {
		panic(err)
	}
	return b
}

// c07Op runs operation op on b and renders its observable result.
// c07Gate, when set, is the flag the other client raises when it is done: an
// upload's body then arrives only after that (natively a short wait, see
// vsym.YieldUntil; symbolically one more scheduling point), which makes "the
// other client ran while the body was in flight" replayable.
type gatedBody struct {
	inner io.Reader
	gate  *int32
	fired bool
}

func (g *gatedBody) Read(p []byte) (int, error) {
	if g.gate != nil && !g.fired {
		g.fired = true
		vsym.YieldUntil(g.gate)
	}
	return g.inner.Read(p)
}

func c07Op(b gofakes3.Backend, op int, body []byte) string { return c07OpGated(b, op, body, nil) }

func c07OpGated(b gofakes3.Backend, op int, body []byte, gate *int32) string {
	switch op {
	case 0: // put k
		r, err := b.PutObject("bkt", "k", map[string]string{}, &gatedBody{inner: bytes.NewReader(body), gate: gate}, int64(len(body)))
		if err != nil {
			return "put-error"
		}
		if r.VersionID != "" {
			// the id handed to the client must name exactly this upload
			vb := b.(gofakes3.VersionedBackend)
			o, err := vb.GetObjectVersion("bkt", "k", r.VersionID, nil)
			if err != nil || o == nil {
				return "put-ok-versioned:id-unknown"
			}
			data, _ := io.ReadAll(o.Contents)
			o.Contents.Close()
			if string(data) != string(body) {
				return "put-ok-versioned:id-names-another-upload"
			}
			return "put-ok-versioned"
		}
		return "put-ok"
	case 1: // get k: the whole body with a matching hash and size
		o := readObjGated(b, "bkt", "k", gate)
		return "get:" + o
	case 2: // delete k
		if _, err := b.DeleteObject("bkt", "k"); err != nil {
			return "delete-error"
		}
		return "delete-ok"
	case 3: // copy k -> j
		if _, err := b.CopyObject("bkt", "k", "bkt", "j", map[string]string{}); err != nil {
			return "copy-error:" + errCode(err)
		}
		return "copy-ok"
	case 4: // list
		l, err := b.ListBucket("bkt", nil, gofakes3.ListBucketPage{})
		if err != nil {
			return "list-error"
		}
		s := "list:"
		for _, c := range l.Contents {
			s += c.Key + "=" + c.ETag + ";"
		}
		return s
	case 6: // delete the bucket (succeeds only when it is empty)
		if err := b.DeleteBucket("bkt"); err != nil {
			return "delete-bucket-error:" + errCode(err)
		}
		return "delete-bucket-ok"
	case 7: // create the bucket
		if err := b.CreateBucket("bkt"); err != nil {
			return "create-bucket-error:" + errCode(err)
		}
		return "create-bucket-ok"
	default: // head k
		o, err := b.HeadObject("bkt", "k")
		if err != nil {
			return "head-error:" + errCode(err)
		}
		return "head:" + itoa(int(o.Size)) + ":" + string(o.Hash)
	}
}

func errCode(err error) string {
	if e, ok := err.(gofakes3.Error); ok {
		return string(e.ErrorCode())
	}
	return "other"
}

func readObjFull(b gofakes3.Backend, bucket, key string) string {
	return readObjGated(b, bucket, key, nil)
}

// readObjGated: with a gate the download of the body starts only after the
// other client is done (natively a short wait, symbolically the same single
// scheduling point), so that "an overwrite completed while the download was
// pending" is a schedule the native replay reproduces.
func readObjGated(b gofakes3.Backend, bucket, key string, gate *int32) string {
	o, err := b.GetObject(bucket, key, nil)
	if err != nil || o == nil {
		return "error:" + errCode(err)
	}
	// the slow reader: other requests complete between the answer's headers
	// and the download of its body
	if gate != nil {
		vsym.YieldUntil(gate)
	} else {
		vsym.Yield()
	}
	data := make([]byte, 0, 4)
	buf := make([]byte, 4)
	for {
		n, rerr := o.Contents.Read(buf)
		data = append(data, buf[:n]...)
		if rerr != nil {
			break
		}
	}
	o.Contents.Close()
	sum := vsym.MD5(data)
	consistent := string(o.Hash) == string(sum[:]) && int(o.Size) == len(data)
	if !consistent {
		return "torn:" + string(data)
	}
	return "ok:" + string(data)
}

func c07Final(b gofakes3.Backend) string {
	s := "k=" + readObjFull(b, "bkt", "k") + "|j=" + readObjFull(b, "bkt", "j") + "|" + c07Op(b, 4, nil)
	// the version history: every acknowledged upload is there under its own
	// id with exactly its content
	if vb, ok := b.(gofakes3.VersionedBackend); ok {
		l, err := vb.ListBucketVersions("bkt", nil, nil)
		if err != nil {
			return s + "|versions-error"
		}
		// (ids are compared for distinctness only: their order reflects the
		// order of allocation, which clients cannot rely on)
		s += "|versions:"
		var ids []gofakes3.VersionID
		for _, v := range l.Versions {
			id := v.GetVersionID()
			for _, o := range ids {
				if o == id {
					s += "DUPLICATE-ID"
				}
			}
			ids = append(ids, id)
			switch e := v.(type) {
			case *gofakes3.Version:
				s += e.Key
				if e.IsLatest {
					s += "*"
				}
			case *gofakes3.DeleteMarker:
				s += e.Key + "(marker)"
				if e.IsLatest {
					s += "*"
				}
			}
			if id != "" {
				key := "k"
				if e, ok := v.(*gofakes3.Version); ok {
					key = e.Key
				}
				if o, err := vb.GetObjectVersion("bkt", key, id, nil); err == nil && o != nil {
					data, _ := io.ReadAll(o.Contents)
					o.Contents.Close()
					s += "=" + string(data)
				} else {
					s += "=" + errCode(err)
				}
			}
			s += ";"
		}
	}
	return s
}

// VH_C07: two operations on overlapping keys run by two threads with every
// interleaving at synchronisation granularity; the results and the final
// state must equal those of one of the two sequential orders (run on the same
// real code), no data race, no deadlock.
func c07Linearizable(mk func() gofakes3.Backend, tag string) {
	nA := vsym.Param("opsa", 1) // client A issues that many operations one after the other
	opsA := make([]int, nA)
	bodiesA := make([][]byte, nA)
	for i := range opsA {
		if vsym.Param("bucketops", 0) == 1 {
			// client A deletes and/or creates the bucket
			opsA[i] = 6 + vsym.Choice("opA", 2)
		} else {
			opsA[i] = vsym.Choice("opA", 6)
		}
		bodiesA[i] = vsym.Bytes("bodyA", 1)
	}
	opB := vsym.Choice("opB", 6)
	bodyB := vsym.Bytes("bodyB", 1)

	// concurrent run
	s := mk()
	ra := make([]string, nA)
	var rb string
	var doneA, doneB int32
	vsym.Go(func() {
		for i := range opsA {
			ra[i] = c07OpGated(s, opsA[i], bodiesA[i], &doneB)
		}
		vsym.SetFlag(&doneA)
	})
	vsym.Go(func() {
		rb = c07OpGated(s, opB, bodyB, &doneA)
		vsym.SetFlag(&doneB)
	})
	vsym.Join()
	f := c07Final(s)

	// Sequential references. Every operation is one atomic step except copy,
	// which S3 (and the helper all backends use) performs as a read of the
	// source followed by a write of the destination: other clients' operations
	// may take effect in between, but each half is atomic. Client A's steps keep
	// their order; B's steps are merged into them in every possible way.
	type step struct {
		client, idx, op, phase int
		body                   []byte
	}
	expand := func(client, idx, op int, body []byte) []step {
		if op == 3 {
			return []step{{client, idx, op, 1, body}, {client, idx, op, 2, body}}
		}
		return []step{{client, idx, op, 0, body}}
	}
	var stepsA, stepsB []step
	for i := range opsA {
		stepsA = append(stepsA, expand(0, i, opsA[i], bodiesA[i])...)
	}
	stepsB = expand(1, 0, opB, bodyB)
	any := false
	// B's first step goes before A's p1-th step, its second (if any) before the p2-th
	for p1 := 0; p1 <= len(stepsA); p1++ {
		for p2 := p1; p2 <= len(stepsA); p2++ {
			if len(stepsB) == 1 && p2 != p1 {
				continue
			}
			var merged []step
			for i := 0; i <= len(stepsA); i++ {
				if i == p1 {
					merged = append(merged, stepsB[0])
				}
				if i == p2 && len(stepsB) == 2 {
					merged = append(merged, stepsB[1])
				}
				if i < len(stepsA) {
					merged = append(merged, stepsA[i])
				}
			}
			ref := mk()
			same := true
			var copied [2]struct {
				data string
				res  string
			}
			for _, st := range merged {
				var res string
				switch st.phase {
				case 0:
					res = c07Op(ref, st.op, st.body)
				case 1:
					o, err := ref.GetObject("bkt", "k", nil)
					if err != nil {
						copied[st.client].res = "copy-error:" + errCode(err)
					} else {
						data, _ := io.ReadAll(o.Contents)
						o.Contents.Close()
						copied[st.client].data = string(data)
					}
					continue
				default:
					res = copied[st.client].res
					if res == "" {
						d := []byte(copied[st.client].data)
						if _, err := ref.PutObject("bkt", "j", map[string]string{}, bytes.NewReader(d), int64(len(d))); err != nil {
							res = "copy-error:" + errCode(err)
						} else {
							res = "copy-ok"
						}
					}
				}
				if st.client == 0 {
					same = vsym.And(same, vsym.StrEq(ra[st.idx], res))
				} else {
					same = vsym.And(same, vsym.StrEq(rb, res))
				}
			}
			same = vsym.And(same, vsym.StrEq(f, c07Final(ref)))
			any = vsym.Or(any, same)
		}
	}
	vsym.Assert(any, tag+"/linearizable")
	vsym.Reach(tag + "/done")
}

func VH_C07() {
	versioned := vsym.Choice("versioned", 2) == 1
	c07Linearizable(func() gofakes3.Backend { return c07State(versioned) }, "C07")
}

// VH_C07b: object operations of one client against bucket deletion and
// re-creation by the other, on a bucket that starts empty (so that the
// deletion can succeed): an acknowledged write is not lost with the bucket it
// was looked up in.
func VH_C07b() {
	c07Linearizable(func() gofakes3.Backend {
		b := s3mem.New(s3mem.WithVersionSeed(7))
		if err := b.CreateBucket("bkt"); err != nil {
			panic(err)
		}
		return b
	}, "C07b")
}

// yieldingBody delivers its bytes one at a time and yields to the scheduler
// between reads: the "slow uploader" whose body arrives while other requests
// complete.
type yieldingBody struct {
	data  []byte
	pos   int
	gate  *int32 // the first byte arrives only after this flag was raised
	fired bool
}

func (y *yieldingBody) Read(p []byte) (int, error) {
	if y.gate != nil && !y.fired {
		y.fired = true
		vsym.YieldUntil(y.gate)
	} else {
		vsym.Yield()
	}
	if y.pos >= len(y.data) {
		return 0, io.EOF
	}
	if len(p) == 0 {
		return 0, nil
	}
	p[0] = y.data[y.pos]
	y.pos++
	return 1, nil
}

// c07HTTP performs an HTTP-level operation and renders what the client sees.
func c07HTTP(h http.Handler, op int, body []byte) string { return c07HTTPGated(h, op, body, nil, nil, nil) }

// c07HTTPGated: bodyGate delays an upload's first byte, started/download are
// the slow download's flags (see SlowRecorder).
func c07HTTPGated(h http.Handler, op int, body []byte, bodyGate, started, download *int32) string {
	switch op {
	case 0: // PUT with a slow body
		hdr := http.Header{"Content-Length": {itoa(len(body))}}
		r := Do(h, Req{Method: "PUT", Path: "/bkt/k", Header: hdr, Body: &yieldingBody{data: body, gate: bodyGate}, Length: int64(len(body))})
		return "put:" + itoa(r.Code()) + ":" + r.Hdr.Get("ETag")
	case 1: // GET by a slow client: body, length and ETag must belong together
		r := DoSlow(h, Req{Method: "GET", Path: "/bkt/k"}, started, download)
		if r.Code() != 200 {
			return "get:" + itoa(r.Code()) + ":" + r.ErrCode()
		}
		ok := r.Hdr.Get("ETag") == etagOf(r.Body) && r.Hdr.Get("Content-Length") == itoa(len(r.Body))
		if !ok {
			return "get:torn:" + string(r.Body)
		}
		return "get:200:" + string(r.Body)
	case 2:
		r := Do(h, Req{Method: "DELETE", Path: "/bkt/k"})
		return "delete:" + itoa(r.Code())
	default: // list: a key listed with an ETag existed with that ETag
		r := Do(h, Req{Method: "GET", Path: "/bkt"})
		v := r.List()
		s := "list:"
		for i, k := range v.Keys {
			s += k + "=" + v.ETags[i] + ";"
		}
		return s
	}
}

func c07HTTPState(versioned bool) (http.Handler, *s3mem.Backend) {
	b := c07State(versioned)
	return gofakes3.New(b, gofakes3.WithTimeSkewLimit(0)).Server(), b
}

// VH_C07h: the same linearizability check through the HTTP handlers with a
// slow uploader (the body arrives byte by byte with scheduling points in
// between) against a concurrent GET / PUT / DELETE / list.
func VH_C07h() {
	versioned := vsym.Choice("versioned", 2) == 1
	opB := vsym.Choice("opB", 4)
	bodyA, bodyB := vsym.Bytes("bodyA", 2), vsym.Bytes("bodyB", 1)

	h1, s1 := c07HTTPState(versioned)
	a1 := c07HTTP(h1, 0, bodyA)
	b1 := c07HTTP(h1, opB, bodyB)
	f1 := c07Final(s1)
	h2, s2 := c07HTTPState(versioned)
	b2 := c07HTTP(h2, opB, bodyB)
	a2 := c07HTTP(h2, 0, bodyA)
	f2 := c07Final(s2)

	h, s := c07HTTPState(versioned)
	var ra, rb string
	// the flags make "the download began, then the upload completed, then the
	// bytes were taken" a schedule that the native replay reproduces
	var startedB, doneA int32
	vsym.Go(func() {
		ra = c07HTTPGated(h, 0, bodyA, &startedB, nil, nil)
		vsym.SetFlag(&doneA)
	})
	vsym.Go(func() {
		rb = c07HTTPGated(h, opB, bodyB, nil, &startedB, &doneA)
		vsym.SetFlag(&startedB)
	})
	vsym.Join()
	f := c07Final(s)
	ab := vsym.And(vsym.And(vsym.StrEq(ra, a1), vsym.StrEq(rb, b1)), vsym.StrEq(f, f1))
	ba := vsym.And(vsym.And(vsym.StrEq(ra, a2), vsym.StrEq(rb, b2)), vsym.StrEq(f, f2))
	vsym.Assert(vsym.Or(ab, ba), "C07h/linearizable")
	vsym.Reach("C07h/done")
}

// VH_C07m: concurrent multipart operations on one upload: part uploads,
// complete and abort; afterwards the object is either absent/old or exactly
// the acknowledged parts.
func VH_C07m() {
	armed, done := false, int32(0)
	mk := func() (http.Handler, *s3mem.Backend, string) {
		b := c07State(false)
		// the clock is a scheduling point (natively: a short wait for the other
		// client), so that work done between reading it and storing a part is
		// exposed to the other client's request
		h := gofakes3.New(b, gofakes3.WithTimeSkewLimit(0), gofakes3.WithTimeSource(gateClock{&armed, &done})).Server()
		id := initiate(h, "m", http.Header{})
		vsym.Assert(uploadPart(h, "m", id, 1, []byte("p1")).Code() == 200, "C07m/setup")
		return h, b, id
	}
	opA := vsym.Choice("opA", 4)
	opB := vsym.Choice("opB", 4)
	body := vsym.Bytes("part", 1)
	run := func(h http.Handler, id string, op int) string {
		defer vsym.SetFlag(&done)
		switch op {
		case 3: // upload part 1 again with other bytes (the part a concurrent complete names)
			r := uploadPart(h, "m", id, 1, []byte("P1"))
			return "repart:" + itoa(r.Code()) + ":" + r.ErrCode()
		case 0: // upload (or re-upload) part 2
			r := uploadPart(h, "m", id, 2, body)
			return "part:" + itoa(r.Code()) + ":" + r.Hdr.Get("ETag")
		case 1: // complete with part 1
			rq := BodyReq("POST", "/bkt/m", nil, CompleteBody([]gofakes3.CompletedPart{{PartNumber: 1, ETag: partETag([]byte("p1"))}}))
			rq.Query = url.Values{"uploadId": {id}}
			r := Do(h, rq)
			return "complete:" + itoa(r.Code()) + ":" + r.ErrCode()
		default: // abort
			r := Do(h, Req{Method: "DELETE", Path: "/bkt/m", Query: url.Values{"uploadId": {id}}})
			return "abort:" + itoa(r.Code()) + ":" + r.ErrCode()
		}
	}
	final := func(h http.Handler, b *s3mem.Backend, id string) string {
		return "m=" + readObjFull(b, "bkt", "m") + "|parts=" + itoa(len(listParts(h, "m", id, nil).Parts().Numbers)) + ":" + listParts(h, "m", id, nil).ErrCode()
	}
	h1, s1, id1 := mk()
	a1 := run(h1, id1, opA)
	b1 := run(h1, id1, opB)
	f1 := final(h1, s1, id1)
	h2, s2, id2 := mk()
	b2 := run(h2, id2, opB)
	a2 := run(h2, id2, opA)
	f2 := final(h2, s2, id2)
	h, s, id := mk()
	var ra, rb string
	done = 0
	armed = true
	vsym.Go(func() { ra = run(h, id, opA) })
	vsym.Go(func() { rb = run(h, id, opB) })
	vsym.Join()
	armed = false
	f := final(h, s, id)
	ab := vsym.And(vsym.And(vsym.StrEq(ra, a1), vsym.StrEq(rb, b1)), vsym.StrEq(f, f1))
	ba := vsym.And(vsym.And(vsym.StrEq(ra, a2), vsym.StrEq(rb, b2)), vsym.StrEq(f, f2))
	vsym.Assert(vsym.Or(ab, ba), "C07m/linearizable")
	vsym.Reach("C07m/done")
}

// c07StateKind: like c07State on the backend tier chosen by the harness
// parameter (never versioned: only s3mem implements versioning).
func c07StateKind(kind int) gofakes3.Backend {
	b := newBackend(kind)
	if kind != kindFsSingle {
		if err := b.CreateBucket("bkt"); err != nil {
			panic(err)
		}
	}
	if _, err := b.PutObject("bkt", "k", map[string]string{}, bytes.NewReader([]byte("0")), 1); err != nil {
		panic(err)
	}
	return b
}

// VH_C07k: VH_C07 on the persistent backends (the fs backends stream an
// object's file after their lock is released, bolt reads inside a transaction).
func VH_C07k() {
	kind := backendKind()
	c07Linearizable(func() gofakes3.Backend { return c07StateKind(kind) }, "C07k")
}

// pausingBackend pauses after HeadObject: the point between the two reads
// (metadata, then contents) that a copy through the HTTP handler performs.
type pausingBackend struct {
	gofakes3.Backend
	armed *bool
	flag  *int32
}

func (p pausingBackend) HeadObject(bucket, key string) (*gofakes3.Object, error) {
	o, err := p.Backend.HeadObject(bucket, key)
	if *p.armed {
		vsym.YieldUntil(p.flag)
	}
	return o, err
}

// VH_C07c: a copy through the HTTP handler while another client overwrites
// the source with new bytes and new metadata: the destination must be one
// upload of the source, bytes and metadata together.
func VH_C07c() {
	armed, flag := false, int32(0)
	inner := s3mem.New()
	b := pausingBackend{Backend: inner, armed: &armed, flag: &flag}
	h := gofakes3.New(b, gofakes3.WithTimeSkewLimit(0)).Server()
	vsym.Assert(Do(h, Req{Method: "PUT", Path: "/bkt"}).Code() == 200, "C07c/setup")
	vsym.Assert(Do(h, BodyReq("PUT", "/bkt/k", http.Header{"X-Amz-Meta-A": {"old"}, "Content-Type": {"t/old"}}, []byte("0"))).Code() == 200, "C07c/setup")
	body := vsym.Bytes("body", 1)
	var ra, rb int
	armed = true
	vsym.Go(func() {
		ra = Do(h, Req{Method: "PUT", Path: "/bkt/j", Header: http.Header{"X-Amz-Copy-Source": {"/bkt/k"}}}).Code()
	})
	vsym.Go(func() {
		rb = Do(h, BodyReq("PUT", "/bkt/k", http.Header{"X-Amz-Meta-A": {"new"}, "Content-Type": {"t/new"}}, body)).Code()
		vsym.SetFlag(&flag)
	})
	vsym.Join()
	armed = false
	vsym.Assert(ra == 200 && rb == 200, "C07c/status")
	g := Do(h, Req{Method: "GET", Path: "/bkt/j"})
	vsym.Assert(g.Code() == 200, "C07c/copy-readable")
	isOld := string(g.Body) == "0" && g.Hdr.Get("ETag") == etagOf([]byte("0"))
	isNew := string(g.Body) == string(body) && g.Hdr.Get("ETag") == etagOf(body)
	vsym.Assert(isOld || isNew, "C07c/copy-is-one-upload")
	metaOld := g.Hdr.Get("X-Amz-Meta-A") == "old" && g.Hdr.Get("Content-Type") == "t/old"
	metaNew := g.Hdr.Get("X-Amz-Meta-A") == "new" && g.Hdr.Get("Content-Type") == "t/new"
	// recorded finding: the handler reads the source's metadata (HeadObject) and
	// its contents (CopyObject) in two steps
	vsym.KnownRegion("KF-C07-http-copy-metadata-snapshot", vsym.And(isNew, metaOld))
	vsym.Assert(vsym.Or(vsym.And(isOld, metaOld), vsym.And(isNew, metaNew)), "C07c/copy-pairs-bytes-and-metadata-of-one-upload")
	vsym.Reach("C07c/done")
}

// gateClock is the server's time source in VH_C07m: reading the clock is a
// scheduling point while armed.
type gateClock struct {
	armed *bool
	done  *int32
}

func (g gateClock) Now() time.Time {
	if *g.armed {
		vsym.YieldUntil(g.done)
	}
	return time.Now()
}

func (g gateClock) Since(t time.Time) time.Duration { return time.Since(t) }
