//go:build vsymbolic

package vharn

import (
	"github.com/johannesboyne/gofakes3/backend/s3bolt"
	"github.com/johannesboyne/gofakes3/internal/vstub"
)

// newBoltBackend: s3bolt on the bbolt model (T-bolt).
func newBoltBackend() *s3bolt.Backend { return s3bolt.New(vstub.BoltNewDB()) }
