package vharn

import (
	"bytes"
	"net/http"
	"net/url"

	"github.com/johannesboyne/gofakes3"
	"github.com/johannesboyne/gofakes3/internal/vsym"
)

// specMatch is the listing rule of C03 (same as the root-package oracle).
func specMatch(key, prefix string, hasDelim bool, delim byte) (ok, common bool, cp string) {
	if len(key) < len(prefix) {
		return false, false, ""
	}
	for i := 0; i < len(prefix); i++ {
		if key[i] != prefix[i] {
			return false, false, ""
		}
	}
	if !hasDelim {
		return true, false, ""
	}
	for i := len(prefix); i < len(key); i++ {
		if key[i] == delim {
			return true, true, key[:i+1]
		}
	}
	return true, false, ""
}

type liveObj struct {
	key  string
	body []byte
}

// sortObjs sorts by key (byte order); keys are distinct.
func sortObjs(o []liveObj) {
	for i := 1; i < len(o); i++ {
		for j := i; j > 0 && o[j].key < o[j-1].key; j-- {
			o[j], o[j-1] = o[j-1], o[j]
		}
	}
}

// expectedListing applies the rule to the sorted live objects.
func expectedListing(objs []liveObj, prefix string, hasDelim bool, delim byte, after string) (keys []string, sizes []int64, etags []string, cps []string) {
	for _, o := range objs {
		if after != "" && !(o.key > after) {
			continue
		}
		ok, common, cp := specMatch(o.key, prefix, hasDelim, delim)
		if !ok {
			continue
		}
		if common {
			if len(cps) == 0 || cps[len(cps)-1] != cp {
				cps = append(cps, cp)
			}
			continue
		}
		keys = append(keys, o.key)
		sizes = append(sizes, int64(len(o.body)))
		etags = append(etags, etagOf(o.body))
	}
	return
}

// fsKeyOK is the key domain of the file-system backends: non-empty
// '/'-separated segments, none equal to "." or "..", no backslash, no NUL.
func fsKeyOK(k string) bool {
	seg := 0
	for i := 0; i <= len(k); i++ {
		if i == len(k) || k[i] == '/' {
			s := k[seg:i]
			if s == "" || s == "." || s == ".." {
				return false
			}
			seg = i + 1
			continue
		}
		if k[i] == '\\' || k[i] == 0 {
			return false
		}
	}
	return true
}

// pathPrefix reports whether a is a proper path-prefix of b (a + "/" + ...).
func pathPrefix(a, b string) bool {
	return len(b) > len(a) && b[:len(a)] == a && b[len(a)] == '/'
}

// buildBucket creates bucket "bkt" on backend b with up to maxKeys objects
// whose keys are free byte strings, then deletes a free subset. Returns the
// live objects (distinct keys).
func buildBucket(b gofakes3.Backend, maxKeys, maxKeyLen int, delim byte, hasDelim bool, printable bool) []liveObj {
	return buildBucketKind(b, kindMem, maxKeys, maxKeyLen, delim, hasDelim, printable)
}

func buildBucketKind(b gofakes3.Backend, kind int, maxKeys, maxKeyLen int, delim byte, hasDelim bool, printable bool) []liveObj {
	fsKind := kind == kindFsMulti || kind == kindFsSingle
	if kind != kindFsSingle {
		if err := b.CreateBucket("bkt"); err != nil {
			panic(err)
		}
	}
	if vb, ok := b.(gofakes3.VersionedBackend); ok && vsym.Param("versioned", 0) == 1 {
		// deletes then leave delete markers, which listings must skip
		if err := vb.SetVersioningConfiguration("bkt", gofakes3.VersioningConfiguration{Status: gofakes3.VersioningEnabled}); err != nil {
			panic(err)
		}
	}
	n := 1 + vsym.Choice("nkeys", maxKeys)
	var live []liveObj
	fixedFirst := vsym.Param("nestedfirst", 0) == 1 // the first key is the nested key a/b
	for i := 0; i < n; i++ {
		kl := 1 + vsym.Choice("keylen", maxKeyLen)
		key := vsym.String("key", kl)
		if fixedFirst && i == 0 {
			key, kl = "a/b", 3
		}
		if printable { // keys that survive the XML text of a native replay
			for j := 0; j < kl; j++ {
				vsym.Assume(key[j] >= 0x20 && key[j] < 0x7f)
			}
		}
		if hasDelim { // key domain of the property: no leading/trailing delimiter
			vsym.Assume(key[0] != delim)
			vsym.Assume(key[kl-1] != delim)
		}
		if fsKind {
			vsym.Assume(fsKeyOK(key))
			for _, o := range live {
				vsym.Assume(!pathPrefix(o.key, key) && !pathPrefix(key, o.key))
			}
		}
		body := vsym.Bytes("body", 1)
		if _, err := b.PutObject("bkt", key, map[string]string{}, bytes.NewReader(body), 1); err != nil {
			vsym.Fail("C03/put-failed")
		}
		replaced := false
		for j := range live {
			if live[j].key == key {
				live[j].body = body
				replaced = true
			}
		}
		if !replaced {
			live = append(live, liveObj{key, body})
		}
	}
	// delete a free subset
	var kept []liveObj
	for _, o := range live {
		if vsym.Choice("delete", 2) == 1 {
			if _, err := b.DeleteObject("bkt", o.key); err != nil {
				vsym.Fail("C03/delete-failed")
			}
			continue
		}
		kept = append(kept, o)
	}
	sortObjs(kept)
	return kept
}

func sameInt64s(a, b []int64) bool {
	if len(a) != len(b) {
		return false
	}
	for i := range a {
		if a[i] != b[i] {
			return false
		}
	}
	return true
}

// VH_C03b_mem: ListObjects V1/V2 on s3mem against the rule.
func VH_C03b_mem() {
	h, b := newMemServer()
	hasDelim := vsym.Choice("hasdelim", 2) == 1
	var delim byte
	if hasDelim {
		delim = '/'
		if vsym.Choice("delimkind", 2) == 1 {
			delim = vsym.Byte("delim")
			vsym.Assume(delim < 0x80)
		}
	}
	viaAPI := vsym.Param("viaapi", 0) == 1
	if hasDelim && !viaAPI {
		vsym.Assume(delim >= 0x20 && delim < 0x7f)
	}
	live := buildBucket(b, vsym.Param("maxkeys", 2), vsym.Param("maxkeylen", 2), delim, hasDelim, !viaAPI)
	pl := vsym.Choice("prefixlen", vsym.Param("maxprefix", 1)+1)
	prefix := vsym.String("prefix", pl)
	if hasDelim && pl > 0 {
		vsym.Assume(prefix[0] != delim)
	}
	if !viaAPI {
		for j := 0; j < pl; j++ {
			vsym.Assume(prefix[j] >= 0x20 && prefix[j] < 0x7f)
		}
	}
	if viaAPI {
		// Go Backend API: every byte value is a legal key byte
		p := gofakes3.Prefix{Prefix: prefix, HasPrefix: pl > 0}
		if hasDelim {
			p.HasDelimiter, p.Delimiter = true, string([]byte{delim})
		}
		ol, err := b.ListBucket("bkt", &p, gofakes3.ListBucketPage{})
		vsym.Assert(err == nil && ol != nil, "C03b/api-error")
		if err != nil || ol == nil {
			return
		}
		var v ListView
		for _, c := range ol.Contents {
			v.Keys = append(v.Keys, c.Key)
			v.Sizes = append(v.Sizes, c.Size)
			v.ETags = append(v.ETags, c.ETag)
		}
		for _, c := range ol.CommonPrefixes {
			v.Prefixes = append(v.Prefixes, c.Prefix)
		}
		keys, sizes, etags, cps := expectedListing(live, prefix, hasDelim, delim, "")
		vsym.Assert(sameStrings(v.Keys, keys), "C03b/contents-keys")
		vsym.Assert(sameStrings(v.Prefixes, cps), "C03b/common-prefixes")
		vsym.Assert(sameInt64s(v.Sizes, sizes), "C03b/sizes")
		vsym.Assert(sameStrings(v.ETags, etags), "C03b/etags")
		vsym.Assert(!ol.IsTruncated, "C03b/not-truncated")
		if len(cps) > 0 {
			vsym.Reach("C03b/common-prefix")
		}
		if len(keys) > 0 {
			vsym.Reach("C03b/contents")
		}
		vsym.Reach("C03b/done")
		return
	}
	q := url.Values{}
	if pl > 0 {
		q.Set("prefix", prefix)
	}
	if hasDelim {
		q.Set("delimiter", string([]byte{delim}))
	}
	v2 := vsym.Choice("v2", 2) == 1
	if v2 {
		q.Set("list-type", "2")
	}
	r := Do(h, Req{Method: "GET", Path: "/bkt", Query: q, Header: http.Header{}})
	vsym.Assert(r.Code() == 200, "C03b/status")
	v := r.List()
	vsym.Assert(v.OK, "C03b/document")
	keys, sizes, etags, cps := expectedListing(live, prefix, hasDelim, delim, "")
	vsym.Assert(sameStrings(v.Keys, keys), "C03b/contents-keys")
	vsym.Assert(sameStrings(v.Prefixes, cps), "C03b/common-prefixes")
	vsym.Assert(sameInt64s(v.Sizes, sizes), "C03b/sizes")
	vsym.Assert(sameStrings(v.ETags, etags), "C03b/etags")
	vsym.Assert(!v.IsTruncated, "C03b/not-truncated")
	if v2 {
		vsym.Assert(v.KeyCount == int64(len(keys)+len(cps)), "C03b/keycount")
	}
	if len(cps) > 0 {
		vsym.Reach("C03b/common-prefix")
	}
	if len(keys) > 0 {
		vsym.Reach("C03b/contents")
	}
	vsym.Reach("C03b/done")
}

// VH_C03b: the listing check on the backend tier selected by "backend"
// (bolt and fs backends do not paginate; fs backends only support '/').
func VH_C03b() {
	kind := backendKind()
	h, b := newServerKind(kind)
	fsKind := kind == kindFsMulti || kind == kindFsSingle
	hasDelim := vsym.Choice("hasdelim", 2) == 1
	var delim byte
	if hasDelim {
		delim = '/'
		if !fsKind && vsym.Choice("delimkind", 2) == 1 {
			delim = vsym.Byte("delim")
			vsym.Assume(delim >= 0x20 && delim < 0x7f)
		}
	}
	live := buildBucketKind(b, kind, vsym.Param("maxkeys", 2), vsym.Param("maxkeylen", 3), delim, hasDelim, true)
	pl := vsym.Choice("prefixlen", vsym.Param("maxprefix", 2)+1)
	prefix := vsym.String("prefix", pl)
	for j := 0; j < pl; j++ {
		vsym.Assume(prefix[j] >= 0x20 && prefix[j] < 0x7f)
	}
	if hasDelim && pl > 0 {
		vsym.Assume(prefix[0] != delim)
	}
	if fsKind && pl > 0 {
		// the fs backends turn the prefix into a directory path: its complete
		// segments must be legal key segments (".", ".." and empty segments are
		// C10's subject), and so must the trailing partial segment
		if prefix[pl-1] == '/' {
			vsym.Assume(fsKeyOK(prefix[:pl-1]))
		} else {
			vsym.Assume(fsKeyOK(prefix))
		}
	}
	q := url.Values{}
	if pl > 0 {
		q.Set("prefix", prefix)
	}
	if hasDelim {
		q.Set("delimiter", string([]byte{delim}))
	}
	v2 := vsym.Choice("v2", 2) == 1
	if v2 {
		q.Set("list-type", "2")
	}
	r := Do(h, Req{Method: "GET", Path: "/bkt", Query: q, Header: http.Header{}})
	vsym.Assert(r.Code() == 200, "C03b/status")
	v := r.List()
	vsym.Assert(v.OK, "C03b/document")
	keys, sizes, etags, cps := expectedListing(live, prefix, hasDelim, delim, "")
	vsym.Assert(sameStrings(v.Keys, keys), "C03b/contents-keys")
	vsym.Assert(sameStrings(v.Prefixes, cps), "C03b/common-prefixes")
	vsym.Assert(sameInt64s(v.Sizes, sizes), "C03b/sizes")
	vsym.Assert(sameStrings(v.ETags, etags), "C03b/etags")
	vsym.Assert(!v.IsTruncated, "C03b/not-truncated")
	if len(cps) > 0 {
		vsym.Reach("C03b/common-prefix")
	}
	if len(keys) > 0 {
		vsym.Reach("C03b/contents")
	}
	vsym.Reach("C03b/done")
}
