package vharn

import (
	"bytes"
	"net/http"
	"net/url"

	"github.com/johannesboyne/gofakes3"
	"github.com/johannesboyne/gofakes3/backend/s3mem"
	"github.com/johannesboyne/gofakes3/internal/vsym"
)

// seedBackend builds identical initial states on two backends through the Go
// Backend API: bucket "bkt" with keys "k" and "d/x".
func seedBackend() *s3mem.Backend {
	b := s3mem.New()
	if err := b.CreateBucket("bkt"); err != nil {
		panic(err)
	}
	for _, k := range []string{"k", "d/x"} {
		if _, err := b.PutObject("bkt", k, map[string]string{"Content-Type": "t/" + k}, bytes.NewReader([]byte("v"+k)), int64(len(k)+1)); err != nil {
			panic(err)
		}
	}
	return b
}

func slashes(n int) string { return "///"[:n] }

// sameResponse compares what a client can observe, except time stamps.
func sameResponse(tag string, a, b *Recorder) {
	vsym.Assert(a.Code() == b.Code(), tag+"/status")
	vsym.Assert(a.ErrCode() == b.ErrCode(), tag+"/error-code")
	isXML := a.Hdr.Get("Content-Type") == "application/xml" && b.Hdr.Get("Content-Type") == "application/xml"
	if !isXML { // XML documents carry request ids and time stamps; they are compared through status and error code
		vsym.Assert(string(a.Body) == string(b.Body), tag+"/body")
	}
	for _, h := range []string{"ETag", "Content-Length", "Content-Type", "Location", "X-Amz-Delete-Marker"} {
		vsym.Assert(a.Hdr.Get(h) == b.Hdr.Get(h), tag+"/header-"+h)
	}
}

// snapshotKeys reads bucket/keys through the Backend API.
func sameState(tag string, a, b *s3mem.Backend, bucket string, keys []string) {
	ea, _ := a.BucketExists(bucket)
	eb, _ := b.BucketExists(bucket)
	vsym.Assert(ea == eb, tag+"/bucket-exists")
	if !ea || !eb {
		return
	}
	for _, k := range keys {
		oa, erra := a.GetObject(bucket, k, nil)
		ob, errb := b.GetObject(bucket, k, nil)
		vsym.Assert((erra == nil) == (errb == nil), tag+"/key-exists")
		if erra == nil && errb == nil {
			vsym.Assert(string(oa.Hash) == string(ob.Hash), tag+"/key-content")
		}
	}
}

// VH_C16: the same logical request in path style and in virtual-host style.
func VH_C16() {
	b1, b2 := seedBackend(), seedBackend()
	mode := vsym.Choice("mode", 5)
	const base1, base2 = "s3.example.test", "alt.example.org:9000"
	var hostOpts []gofakes3.Option
	switch mode {
	case 0:
		hostOpts = []gofakes3.Option{gofakes3.WithHostBucket(true)}
	case 1:
		hostOpts = []gofakes3.Option{gofakes3.WithHostBucketBase(base1)}
	case 4:
		// both options: the base list decides (as documented on WithHostBucketBase),
		// so everything below is as in mode 1
		hostOpts = []gofakes3.Option{gofakes3.WithHostBucket(true), gofakes3.WithHostBucketBase(base1)}
	case 2:
		hostOpts = []gofakes3.Option{gofakes3.WithHostBucketBase("."+base1+".", base2)}
	default:
		// nested bases, the shorter one listed first
		hostOpts = []gofakes3.Option{gofakes3.WithHostBucketBase("example.test", base1, base2)}
	}
	if mode == 4 {
		mode = 1
	}
	pathSrv := gofakes3.New(b1, gofakes3.WithTimeSkewLimit(0)).Server()
	hostSrv := gofakes3.New(b2, append([]gofakes3.Option{gofakes3.WithTimeSkewLimit(0)}, hostOpts...)...).Server()

	// bucket label: the seeded bucket, or a free 3-byte label
	bucket := "bkt"
	if vsym.Choice("bucketsel", 2) == 1 {
		bucket = "b" + vsym.String("label", 2)
		for i := 1; i < 3; i++ {
			vsym.Assume(bucket[i] != '.' && bucket[i] != '/' && bucket[i] != ':')
		}
	}
	kl := vsym.Choice("keylen", vsym.Param("maxkey", 2)+1)
	key := vsym.String("key", kl)
	// extra slashes before the bucket and at the end of the path
	lead, trail := 0, 0
	switch vsym.Choice("slashes", 3) {
	case 1:
		lead = 1
	case 2:
		trail = 1
	}
	var method string
	var q url.Values
	var body []byte
	switch vsym.Choice("op", 8) {
	case 0:
		method = "GET"
	case 1:
		method = "HEAD"
	case 2:
		method = "PUT"
		body = vsym.Bytes("body", 1)
	case 3:
		method = "DELETE"
	case 4:
		method, q = "GET", url.Values{"location": {""}}
	case 5:
		method, q = "GET", url.Values{"list-type": {"2"}, "prefix": {"d"}}
	case 6:
		method, q = "POST", url.Values{"uploads": {""}}
	default:
		method, q = "GET", url.Values{"versioning": {""}}
	}
	mk := func(path, host string) Req {
		r := Req{Method: method, Path: path, Query: q, Host: host, Header: http.Header{}}
		if method == "PUT" {
			r = BodyReq(method, path, nil, body)
			r.Query, r.Host = q, host
		}
		return r
	}
	keyPart := ""
	if kl > 0 {
		keyPart = "/" + key
	}
	pathReq := mk(slashes(lead)+"/"+bucket+keyPart+slashes(trail), base1)

	hostKind := vsym.Choice("hostkind", 6)
	var host string
	matches := true
	switch hostKind {
	case 0:
		host = bucket + "." + base1
	case 1:
		host = bucket + "." + base2
		matches = mode != 1
	case 2: // the base itself: no bucket label
		host = base1
		matches = false
		if mode == 3 {
			vsym.Assume(false) // under nested bases "s3.example.test" is bucket "s3" of the parent base
		}
	case 4: // ends in the base's text but not at a label boundary
		host = bucket + base1
		matches = false
		if mode == 0 || mode == 3 {
			// plain host-bucket mode takes the first label ("<bucket><first label of the base>"),
			// and under nested bases that label is a bucket of the parent base
			vsym.Assume(false)
		}
	case 5: // an unrelated host
		host = bucket + ".unrelated.invalid"
		matches = false
	default: // two-label prefix
		host = bucket + ".x." + base1
		matches = false
	}
	if mode == 0 {
		// plain host-bucket mode takes the first label whatever follows
		matches = hostKind != 2
	}
	if !matches {
		// falls back to path style: the same path must be answered like the path-style server
		vsym.Reach("C16/fallback")
		if mode == 0 {
			return // host-bucket mode has no fallback (every host is split)
		}
		r1 := Do(pathSrv, pathReq)
		fb := pathReq
		fb.Host = host
		if method == "PUT" {
			fb = mk(pathReq.Path, host)
		}
		r2 := Do(hostSrv, fb)
		sameResponse("C16/fallback", r1, r2)
		sameState("C16/fallback-state", b1, b2, "bkt", []string{"k", "d/x", key})
		return
	}
	vsym.Reach("C16/match")
	hp := keyPart + slashes(trail)
	if hp == "" {
		hp = "/"
	}
	hostReq := mk(hp, host)
	r1 := Do(pathSrv, pathReq)
	r2 := Do(hostSrv, hostReq)
	sameResponse("C16/host-vs-path", r1, r2)
	sameState("C16/state", b1, b2, "bkt", []string{"k", "d/x", key})
	if bucket != "bkt" {
		sameState("C16/state-other", b1, b2, bucket, []string{key})
	}
}
